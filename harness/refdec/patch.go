package refdec

import (
	"bytes"
	"fmt"
)

// Elem is one element of a branch or leaf page, with absolute file offsets.
type Elem struct {
	Index   int
	ElemOff int // offset of the 16-byte element header in the file
	KeyOff  int
	KeyLen  int
	ValOff  int // leaf only
	ValLen  int // leaf only
	Child   uint64
	Flags   uint32 // leaf only
	// bucket elements: root page (0 = inline)
	IsBucket   bool
	BucketRoot uint64
}

// PageInfo describes one reachable tree page.
type PageInfo struct {
	ID       uint64
	Flags    uint16
	Overflow uint32
	Parent   uint64 // 0 = root of its bucket
	ParentIx int
	Elems    []Elem
}

// TreePages lists every reachable branch/leaf page of version m (inline pages are not listed).
func (f *File) TreePages(m *Meta) []PageInfo {
	var out []PageInfo
	seen := map[uint64]bool{}
	var walk func(id, parent uint64, pix int)
	walk = func(id, parent uint64, pix int) {
		if id < 2 || id >= m.Pgid || seen[id] {
			return
		}
		seen[id] = true
		pg := f.page(id)
		if pg == nil {
			return
		}
		h := ParseHeader(pg)
		ext := (int(h.Overflow) + 1) * f.PageSize
		base := int(id) * f.PageSize
		if base+ext > len(f.Data) {
			return
		}
		pi := PageInfo{ID: id, Flags: h.Flags, Overflow: h.Overflow, Parent: parent, ParentIx: pix}
		cnt := int(h.Count)
		switch h.Flags {
		case FlagBranch:
			for i := 0; i < cnt; i++ {
				eo := base + PageHeaderSize + i*BranchElemSize
				pos := int(le.Uint32(f.Data[eo:]))
				ks := int(le.Uint32(f.Data[eo+4:]))
				pi.Elems = append(pi.Elems, Elem{Index: i, ElemOff: eo, KeyOff: eo + pos, KeyLen: ks, Child: le.Uint64(f.Data[eo+8:])})
			}
			out = append(out, pi)
			for i, e := range pi.Elems {
				walk(e.Child, id, i)
			}
		case FlagLeaf:
			for i := 0; i < cnt; i++ {
				eo := base + PageHeaderSize + i*LeafElemSize
				fl := le.Uint32(f.Data[eo:])
				pos := int(le.Uint32(f.Data[eo+4:]))
				ks := int(le.Uint32(f.Data[eo+8:]))
				vs := int(le.Uint32(f.Data[eo+12:]))
				e := Elem{Index: i, ElemOff: eo, KeyOff: eo + pos, KeyLen: ks, ValOff: eo + pos + ks, ValLen: vs, Flags: fl}
				if fl&LeafFlagBucket != 0 && vs >= BucketHdrSize {
					e.IsBucket = true
					e.BucketRoot = le.Uint64(f.Data[e.ValOff:])
				}
				pi.Elems = append(pi.Elems, e)
			}
			out = append(out, pi)
			for _, e := range pi.Elems {
				if e.IsBucket && e.BucketRoot != 0 {
					walk(e.BucketRoot, 0, 0)
				}
			}
		}
	}
	walk(m.Root, 0, 0)
	return out
}

// Key returns the key bytes of an element.
func (f *File) Key(e Elem) []byte { return f.Data[e.KeyOff : e.KeyOff+e.KeyLen] }

// metaOff returns the file offset of the meta structure in slot.
func (f *File) metaOff(slot int) int { return slot*f.PageSize + PageHeaderSize }

// PatchMeta rewrites fields of the meta in slot and recomputes the checksum.
func (f *File) PatchMeta(slot int, fn func(m *Meta)) {
	m := ParseMeta(f.Data[slot*f.PageSize:], slot)
	fn(&m)
	b := f.Data[f.metaOff(slot):]
	le.PutUint32(b[0:], m.Magic)
	le.PutUint32(b[4:], m.Version)
	le.PutUint32(b[8:], m.PageSize)
	le.PutUint32(b[12:], m.Flags)
	le.PutUint64(b[16:], m.Root)
	le.PutUint64(b[24:], m.RootSeq)
	le.PutUint64(b[32:], m.Freelist)
	le.PutUint64(b[40:], m.Pgid)
	le.PutUint64(b[48:], m.Txid)
	le.PutUint64(b[56:], MetaSum(b))
	f.Metas[slot] = ParseMeta(f.Data[slot*f.PageSize:], slot)
}

// MetaBytes returns the 80 bytes (page header + meta) of slot.
func (f *File) MetaBytes(slot int) []byte {
	return f.Data[slot*f.PageSize : slot*f.PageSize+PageHeaderSize+MetaSize]
}

// FreelistCapacity returns how many ids fit into the freelist extent of version m.
func (f *File) FreelistCapacity(m *Meta) int {
	pg := f.page(m.Freelist)
	if pg == nil {
		return 0
	}
	h := ParseHeader(pg)
	return ((int(h.Overflow)+1)*f.PageSize - PageHeaderSize) / 8
}

// WriteFreelist replaces the id list of version m's freelist page (must fit; < 0xFFFF ids).
func (f *File) WriteFreelist(m *Meta, ids []uint64) error {
	if m.Freelist == NoFreelist {
		return fmt.Errorf("no persisted freelist")
	}
	if len(ids) > f.FreelistCapacity(m) || len(ids) >= 0xFFFF {
		return fmt.Errorf("%d ids do not fit", len(ids))
	}
	base := int(m.Freelist) * f.PageSize
	le.PutUint16(f.Data[base+10:], uint16(len(ids)))
	for i, id := range ids {
		le.PutUint64(f.Data[base+PageHeaderSize+8*i:], id)
	}
	return nil
}

// SetBranchChild retargets a branch element.
func (f *File) SetBranchChild(e Elem, pgid uint64) { le.PutUint64(f.Data[e.ElemOff+8:], pgid) }

// SetBucketRoot retargets the root page of a (non-inline) bucket element.
func (f *File) SetBucketRoot(e Elem, pgid uint64) { le.PutUint64(f.Data[e.ValOff:], pgid) }

// SetPageFlags overwrites the flags of page id.
func (f *File) SetPageFlags(id uint64, flags uint16) {
	le.PutUint16(f.Data[int(id)*f.PageSize+8:], flags)
}

// SwapKeys swaps the key bytes of two elements with equal key length.
func (f *File) SwapKeys(a, b Elem) bool {
	if a.KeyLen != b.KeyLen || bytes.Equal(f.Key(a), f.Key(b)) {
		return false
	}
	tmp := append([]byte(nil), f.Key(a)...)
	copy(f.Data[a.KeyOff:], f.Key(b))
	copy(f.Data[b.KeyOff:], tmp)
	return true
}

// Clone returns a deep copy of the file.
func (f *File) Clone() *File {
	g := *f
	g.Data = append([]byte(nil), f.Data...)
	return &g
}

// Package refdec is an independent decoder of the bbolt version-2 file format.
// It is written from the published layout only (encoding/binary over a byte
// slice) and imports nothing from bbolt, so a symmetric change of the layout in
// the code under test shows up as a disagreement.
//
// Little-endian (amd64) is assumed.
package refdec

import (
	"bytes"
	"encoding/binary"
	"fmt"
	"hash/fnv"
	"sort"

	"go.etcd.io/bbolt/verifh/model"
)

const (
	Magic          = 0xED0CDAED
	Version        = 2
	PageHeaderSize = 16
	MetaSize       = 64
	BranchElemSize = 16
	LeafElemSize   = 16
	BucketHdrSize  = 16
	NoFreelist     = ^uint64(0)

	FlagBranch   = 0x01
	FlagLeaf     = 0x02
	FlagMeta     = 0x04
	FlagFreelist = 0x10

	LeafFlagBucket = 0x01
)

var le = binary.LittleEndian

type Meta struct {
	Slot      int // 0 or 1
	Valid     bool
	Why       string // reason when invalid
	PageID    uint64
	PageFlags uint16
	Magic     uint32
	Version   uint32
	PageSize  uint32
	Flags     uint32
	Root      uint64
	RootSeq   uint64
	Freelist  uint64
	Pgid      uint64 // high-water mark
	Txid      uint64
	Checksum  uint64
}

type PageHeader struct {
	ID       uint64
	Flags    uint16
	Count    uint16
	Overflow uint32
}

func ParseHeader(b []byte) PageHeader {
	return PageHeader{ID: le.Uint64(b[0:]), Flags: le.Uint16(b[8:]), Count: le.Uint16(b[10:]), Overflow: le.Uint32(b[12:])}
}

// MetaSum computes the FNV-1a-64 checksum over the first 56 bytes of a meta structure.
func MetaSum(meta []byte) uint64 {
	h := fnv.New64a()
	h.Write(meta[:56])
	return h.Sum64()
}

// ParseMeta decodes the meta structure of the page starting at pg.
func ParseMeta(pg []byte, slot int) Meta {
	m := Meta{Slot: slot}
	if len(pg) < PageHeaderSize+MetaSize {
		m.Why = "short"
		return m
	}
	h := ParseHeader(pg)
	m.PageID, m.PageFlags = h.ID, h.Flags
	b := pg[PageHeaderSize:]
	m.Magic = le.Uint32(b[0:])
	m.Version = le.Uint32(b[4:])
	m.PageSize = le.Uint32(b[8:])
	m.Flags = le.Uint32(b[12:])
	m.Root = le.Uint64(b[16:])
	m.RootSeq = le.Uint64(b[24:])
	m.Freelist = le.Uint64(b[32:])
	m.Pgid = le.Uint64(b[40:])
	m.Txid = le.Uint64(b[48:])
	m.Checksum = le.Uint64(b[56:])
	switch {
	case m.Magic != Magic:
		m.Why = "magic"
	case m.Version != Version:
		m.Why = "version"
	case m.Checksum != MetaSum(b):
		m.Why = "checksum"
	default:
		m.Valid = true
	}
	return m
}

// File is a decoded data file.
type File struct {
	Data     []byte
	PageSize int
	Metas    [2]Meta
}

// Open decodes the two meta pages. The page size is taken from meta 0 when it
// is valid, otherwise meta 1 is searched at every power-of-two offset from 1 KiB.
// hint (may be 0) is used when neither meta tells.
func Open(data []byte, hint int) (*File, error) {
	f := &File{Data: data}
	m0 := ParseMeta(data, 0)
	if m0.Valid {
		f.PageSize = int(m0.PageSize)
	} else {
		for ps := 1024; ps <= 1024<<14 && ps+PageHeaderSize+MetaSize <= len(data); ps <<= 1 {
			m1 := ParseMeta(data[ps:], 1)
			if m1.Valid && int(m1.PageSize) == ps {
				f.PageSize = ps
				break
			}
		}
	}
	if f.PageSize == 0 {
		f.PageSize = hint
	}
	if f.PageSize == 0 {
		return nil, fmt.Errorf("refdec: cannot determine page size")
	}
	f.Metas[0] = m0
	if len(data) >= f.PageSize+PageHeaderSize+MetaSize {
		f.Metas[1] = ParseMeta(data[f.PageSize:], 1)
	} else {
		f.Metas[1] = Meta{Slot: 1, Why: "short"}
	}
	return f, nil
}

// Current returns the valid meta with the highest txid, or nil.
func (f *File) Current() *Meta {
	a, b := &f.Metas[0], &f.Metas[1]
	switch {
	case a.Valid && b.Valid:
		if b.Txid > a.Txid {
			return b
		}
		return a
	case a.Valid:
		return a
	case b.Valid:
		return b
	}
	return nil
}

// Other returns the meta that Current did not return (valid or not).
func (f *File) Other() *Meta {
	c := f.Current()
	if c == nil {
		return nil
	}
	return &f.Metas[1-c.Slot]
}

type Role uint8

const (
	RoleNone Role = iota
	RoleMeta
	RoleFreelist // first page or overflow page of the freelist of this version
	RoleBranch
	RoleLeaf
	RoleOverflow // overflow page of a branch/leaf
)

func (r Role) String() string {
	return [...]string{"none", "meta", "freelist", "branch", "leaf", "overflow"}[r]
}

// Accounting is the page accounting of one version (one meta) of the file.
type Accounting struct {
	Meta        Meta
	HWM         uint64
	Role        []Role   // per page id < HWM (tree/freelist/meta)
	Refs        []int    // reference count per page id from the tree (and the freelist pointer)
	Owner       []uint64 // for overflow pages: id of the first page
	HasFreelist bool
	FreeIDs     []uint64 // ids listed in the freelist page (as stored)
	Listed      []int    // times each id is listed in the freelist page
	FreelistN   int      // pages occupied by the freelist (0 when not persisted)
	Anomalies   []string

	// structure statistics
	Branches, Leaves, Overflows, InlineBuckets, Buckets, BucketsWithSeq, Depth int
	Tree                                                                       *model.Bucket
	LeafNames                                                                  map[uint64][]string // names stored on each (non-inline) leaf page
	// Own holds, per decoded bucket, what that bucket itself (without nested buckets) occupies
	Own map[*model.Bucket]*BStat
}

// BStat is the space accounting of one bucket (nested buckets not included).
type BStat struct {
	Inline                                     bool
	Branch, BranchOverflow, Leaf, LeafOverflow int // pages
	Elements                                   int // leaf elements (keys and nested-bucket names)
	BranchInuse, LeafInuse, InlineInuse        int // bytes: page header + element headers + key/value bytes
}

func (a *Accounting) own(b *model.Bucket) *BStat {
	if a.Own == nil {
		a.Own = map[*model.Bucket]*BStat{}
	}
	st := a.Own[b]
	if st == nil {
		st = &BStat{}
		a.Own[b] = st
	}
	return st
}

// Subtree sums the accounting of bucket b and of everything nested in it; buckets and inline count buckets.
func (a *Accounting) Subtree(b *model.Bucket) (sum BStat, buckets, inline int) {
	if st := a.Own[b]; st != nil {
		sum = *st
		if st.Inline {
			inline = 1
		}
	}
	buckets = 1
	for _, sub := range b.Sub {
		s2, b2, i2 := a.Subtree(sub)
		sum.Branch += s2.Branch
		sum.BranchOverflow += s2.BranchOverflow
		sum.Leaf += s2.Leaf
		sum.LeafOverflow += s2.LeafOverflow
		sum.Elements += s2.Elements
		sum.BranchInuse += s2.BranchInuse
		sum.LeafInuse += s2.LeafInuse
		sum.InlineInuse += s2.InlineInuse
		buckets += b2
		inline += i2
	}
	return
}

func (a *Accounting) anom(format string, args ...any) {
	if len(a.Anomalies) < 64 {
		a.Anomalies = append(a.Anomalies, fmt.Sprintf(format, args...))
	}
}

// Unreachable returns every id in [2,HWM) that is neither a tree page of this
// version nor (when countFreelist) one of its freelist pages.
func (a *Accounting) Unreachable(countFreelistPageAsReachable bool) []uint64 {
	var out []uint64
	for id := uint64(2); id < a.HWM; id++ {
		switch a.Role[id] {
		case RoleNone:
			out = append(out, id)
		case RoleFreelist:
			if !countFreelistPageAsReachable {
				out = append(out, id)
			}
		}
	}
	return out
}

// Pages returns the set of pages making up this version: tree pages with their
// overflow pages and the freelist pages.
func (a *Accounting) Pages() map[uint64]bool {
	out := map[uint64]bool{}
	for id := uint64(2); id < a.HWM && id < uint64(len(a.Role)); id++ {
		if a.Role[id] != RoleNone {
			out[id] = true
		}
	}
	return out
}

// Clean reports whether no anomaly was found.
func (a *Accounting) Clean() bool { return len(a.Anomalies) == 0 }

func (f *File) page(id uint64) []byte {
	off := id * uint64(f.PageSize)
	if off+uint64(f.PageSize) > uint64(len(f.Data)) {
		return nil
	}
	return f.Data[off:]
}

// Analyze walks the version described by m and returns its content and page accounting.
func (f *File) Analyze(m *Meta) *Accounting {
	a := &Accounting{Meta: *m, HWM: m.Pgid}
	if m.Pgid > uint64(len(f.Data)/f.PageSize)+1<<20 {
		a.anom("hwm %d absurd for file of %d bytes", m.Pgid, len(f.Data))
		return a
	}
	a.Role = make([]Role, m.Pgid)
	a.Refs = make([]int, m.Pgid)
	a.Owner = make([]uint64, m.Pgid)
	a.Listed = make([]int, m.Pgid)
	if m.Pgid < 2 {
		a.anom("hwm %d < 2", m.Pgid)
		return a
	}
	a.Role[0], a.Role[1] = RoleMeta, RoleMeta
	if uint64(len(f.Data)) < m.Pgid*uint64(f.PageSize) {
		a.anom("file length %d shorter than hwm %d * pagesize %d", len(f.Data), m.Pgid, f.PageSize)
	}
	if int(m.PageSize) != f.PageSize {
		a.anom("meta page size %d != detected %d", m.PageSize, f.PageSize)
	}
	// the two meta pages: page header = (id of the slot, meta flag)
	for slot := range f.Metas {
		mm := f.Metas[slot]
		if !mm.Valid {
			continue // an invalid slot (torn write) is legal at rest; validity is judged elsewhere
		}
		if mm.PageID != uint64(slot) {
			a.anom("meta page in slot %d carries page id %d in its header", slot, mm.PageID)
		}
		if mm.PageFlags != FlagMeta {
			a.anom("meta page in slot %d has page flags %#x, want %#x", slot, mm.PageFlags, FlagMeta)
		}
	}
	// freelist
	if m.Freelist != NoFreelist {
		a.HasFreelist = true
		f.readFreelist(a, m.Freelist)
	}
	// tree
	a.Tree = model.New()
	a.Tree.Seq = m.RootSeq
	a.Buckets = 0
	if m.Root == 0 || m.Root >= m.Pgid {
		a.anom("root page %d out of range (hwm %d)", m.Root, m.Pgid)
	} else {
		d := f.walkBucketPages(a, m.Root, a.Tree, true, 1)
		if d > a.Depth {
			a.Depth = d
		}
	}
	// cross checks
	for id := uint64(2); id < m.Pgid; id++ {
		reach := a.Role[id] != RoleNone
		if a.Refs[id] > 1 {
			a.anom("page %d referenced %d times", id, a.Refs[id])
		}
		if a.HasFreelist {
			if a.Listed[id] > 1 {
				a.anom("page %d listed %d times in freelist", id, a.Listed[id])
			}
			if reach && a.Listed[id] > 0 {
				a.anom("page %d (%s) both in use and listed free", id, a.Role[id])
			}
			if !reach && a.Listed[id] == 0 {
				a.anom("page %d neither reachable nor free", id)
			}
		}
	}
	return a
}

func (f *File) readFreelist(a *Accounting, id uint64) {
	if id < 2 || id >= a.HWM {
		a.anom("freelist page %d out of range (hwm %d)", id, a.HWM)
		return
	}
	pg := f.page(id)
	if pg == nil {
		a.anom("freelist page %d beyond file", id)
		return
	}
	h := ParseHeader(pg)
	if h.ID != id {
		a.anom("freelist page %d self-identifies as %d", id, h.ID)
	}
	if h.Flags != FlagFreelist {
		a.anom("freelist page %d has flags %#x", id, h.Flags)
		return
	}
	n := int(h.Overflow) + 1
	a.FreelistN = n
	for i := 0; i < n; i++ {
		p := id + uint64(i)
		if p >= a.HWM {
			a.anom("freelist overflow page %d beyond hwm", p)
			return
		}
		a.Refs[p]++
		if a.Role[p] != RoleNone {
			a.anom("freelist page %d already has role %s", p, a.Role[p])
		}
		a.Role[p] = RoleFreelist
		a.Owner[p] = id
	}
	extent := uint64(n * f.PageSize)
	if id*uint64(f.PageSize)+extent > uint64(len(f.Data)) {
		a.anom("freelist extent beyond file")
		return
	}
	body := pg[PageHeaderSize:extent]
	count := int(h.Count)
	if count == 0xFFFF {
		if len(body) < 8 {
			a.anom("freelist too short for count element")
			return
		}
		count = int(le.Uint64(body))
		body = body[8:]
	}
	if count*8 > len(body) {
		a.anom("freelist count %d does not fit in %d pages", count, n)
		return
	}
	prev := uint64(0)
	for i := 0; i < count; i++ {
		v := le.Uint64(body[i*8:])
		a.FreeIDs = append(a.FreeIDs, v)
		if v < 2 || v >= a.HWM {
			a.anom("freelist id %d out of range [2,%d)", v, a.HWM)
			continue
		}
		if i > 0 && v < prev {
			a.anom("freelist ids not sorted at index %d (%d after %d)", i, v, prev)
		}
		prev = v
		a.Listed[v]++
	}
}

// walkBucketPages walks the tree rooted at page root, filling b; returns depth.
func (f *File) walkBucketPages(a *Accounting, root uint64, b *model.Bucket, isRootBucket bool, level int) int {
	a.Buckets++
	return f.walkPage(a, root, b, nil, nil, isRootBucket, 1)
}

// walkPage decodes page id (branch or leaf), with keys expected in [lo, hi).
func (f *File) walkPage(a *Accounting, id uint64, b *model.Bucket, lo, hi []byte, isRootBucket bool, depth int) int {
	if id < 2 || id >= a.HWM {
		a.anom("tree page %d out of range (hwm %d)", id, a.HWM)
		return depth
	}
	pg := f.page(id)
	if pg == nil {
		a.anom("tree page %d beyond file", id)
		return depth
	}
	h := ParseHeader(pg)
	a.Refs[id]++
	if a.Refs[id] > 1 {
		return depth // do not descend twice
	}
	if h.ID != id {
		a.anom("page %d self-identifies as %d", id, h.ID)
	}
	n := uint64(h.Overflow) + 1
	if id+n > a.HWM {
		a.anom("page %d overflow %d beyond hwm %d", id, h.Overflow, a.HWM)
		n = a.HWM - id
	}
	extent := n * uint64(f.PageSize)
	if id*uint64(f.PageSize)+extent > uint64(len(f.Data)) {
		a.anom("page %d extent beyond file", id)
		return depth
	}
	pg = pg[:extent]
	switch h.Flags {
	case FlagBranch:
		a.Role[id] = RoleBranch
		a.Branches++
		a.own(b).Branch++
		a.own(b).BranchOverflow += int(n) - 1
	case FlagLeaf:
		a.Role[id] = RoleLeaf
		a.Leaves++
		a.own(b).Leaf++
		a.own(b).LeafOverflow += int(n) - 1
	default:
		a.anom("page %d reachable with invalid flags %#x", id, h.Flags)
		a.Role[id] = RoleLeaf
		return depth
	}
	for i := uint64(1); i < n; i++ {
		p := id + i
		a.Refs[p]++
		if a.Role[p] != RoleNone {
			a.anom("overflow page %d of %d already has role %s", p, id, a.Role[p])
		}
		a.Role[p] = RoleOverflow
		a.Owner[p] = id
		a.Overflows++
	}
	if h.Flags == FlagBranch {
		return f.walkBranch(a, id, pg, h, b, lo, hi, isRootBucket, depth)
	}
	f.walkLeaf(a, fmt.Sprintf("page %d", id), pg, h, b, lo, hi, isRootBucket)
	return depth
}

func (f *File) walkBranch(a *Accounting, id uint64, pg []byte, h PageHeader, b *model.Bucket, lo, hi []byte, isRootBucket bool, depth int) int {
	cnt := int(h.Count)
	if cnt == 0 {
		a.anom("branch page %d has no elements", id)
		return depth
	}
	if PageHeaderSize+cnt*BranchElemSize > len(pg) {
		a.anom("branch page %d: %d elements do not fit", id, cnt)
		return depth
	}
	type el struct {
		key  []byte
		pgid uint64
	}
	els := make([]el, 0, cnt)
	for i := 0; i < cnt; i++ {
		eoff := PageHeaderSize + i*BranchElemSize
		pos := int(le.Uint32(pg[eoff:]))
		ks := int(le.Uint32(pg[eoff+4:]))
		child := le.Uint64(pg[eoff+8:])
		s := eoff + pos
		if s < PageHeaderSize+cnt*BranchElemSize || s+ks > len(pg) || ks == 0 {
			a.anom("branch page %d element %d: key [%d,%d) outside page body (len %d) or empty", id, i, s, s+ks, len(pg))
			return depth
		}
		els = append(els, el{pg[s : s+ks], child})
	}
	used := PageHeaderSize + cnt*BranchElemSize
	for _, e := range els {
		used += len(e.key)
	}
	a.own(b).BranchInuse += used
	maxd := depth
	for i, e := range els {
		if i > 0 && bytes.Compare(els[i-1].key, e.key) >= 0 {
			a.anom("branch page %d: key %d not greater than key %d", id, i, i-1)
		}
		if lo != nil && bytes.Compare(e.key, lo) < 0 {
			a.anom("branch page %d: key %d below the parent separator", id, i)
		}
		if hi != nil && bytes.Compare(e.key, hi) >= 0 {
			a.anom("branch page %d: key %d not below the next parent separator", id, i)
		}
		var nhi []byte = hi
		if i+1 < len(els) {
			nhi = els[i+1].key
		}
		d := f.walkPage(a, e.pgid, b, e.key, nhi, isRootBucket, depth+1)
		if d > maxd {
			maxd = d
		}
	}
	return maxd
}

// walkLeaf decodes a leaf page (or an inline page) located in pg.
func (f *File) walkLeaf(a *Accounting, what string, pg []byte, h PageHeader, b *model.Bucket, lo, hi []byte, isRootBucket bool) {
	cnt := int(h.Count)
	if PageHeaderSize+cnt*LeafElemSize > len(pg) {
		a.anom("%s: %d leaf elements do not fit in %d bytes", what, cnt, len(pg))
		return
	}
	var prev []byte
	own := a.own(b)
	own.Elements += cnt
	if h.ID == 0 && !isRootBucket {
		own.Inline = true
		own.InlineInuse += PageHeaderSize + cnt*LeafElemSize
	} else {
		own.LeafInuse += PageHeaderSize + cnt*LeafElemSize
	}
	for i := 0; i < cnt; i++ {
		eoff := PageHeaderSize + i*LeafElemSize
		flags := le.Uint32(pg[eoff:])
		pos := int(le.Uint32(pg[eoff+4:]))
		ks := int(le.Uint32(pg[eoff+8:]))
		vs := int(le.Uint32(pg[eoff+12:]))
		s := eoff + pos
		if s < PageHeaderSize+cnt*LeafElemSize || s+ks+vs > len(pg) || ks == 0 || s+ks+vs < s {
			a.anom("%s element %d: data [%d,%d) outside page body (len %d) or empty key", what, i, s, s+ks+vs, len(pg))
			return
		}
		key := pg[s : s+ks]
		val := pg[s+ks : s+ks+vs]
		if own.Inline {
			own.InlineInuse += ks + vs
		} else {
			own.LeafInuse += ks + vs
		}
		if i > 0 && bytes.Compare(prev, key) >= 0 {
			a.anom("%s: key %d not greater than key %d", what, i, i-1)
		}
		if i == 0 && lo != nil && bytes.Compare(key, lo) < 0 {
			a.anom("%s: first key below the parent separator", what)
		}
		if hi != nil && bytes.Compare(key, hi) >= 0 {
			a.anom("%s: key %d not below the next parent separator", what, i)
		}
		prev = key
		if h.ID != 0 {
			if a.LeafNames == nil {
				a.LeafNames = map[uint64][]string{}
			}
			a.LeafNames[h.ID] = append(a.LeafNames[h.ID], string(key))
		}
		if flags&^uint32(LeafFlagBucket) != 0 {
			a.anom("%s element %d: unknown leaf flags %#x", what, i, flags)
		}
		name := string(key)
		if b.Has(name) != 0 {
			a.anom("%s: duplicate name %q in bucket", what, name)
		}
		if flags&LeafFlagBucket != 0 {
			if len(val) < BucketHdrSize {
				a.anom("%s element %d: bucket value of %d bytes", what, i, len(val))
				continue
			}
			sub := model.New()
			sub.Seq = le.Uint64(val[8:])
			if sub.Seq != 0 {
				a.BucketsWithSeq++
			}
			b.Sub[name] = sub
			root := le.Uint64(val[0:])
			if root == 0 {
				a.InlineBuckets++
				a.Buckets++
				ip := val[BucketHdrSize:]
				if len(ip) < PageHeaderSize {
					a.anom("%s element %d: inline bucket without page header", what, i)
					continue
				}
				ih := ParseHeader(ip)
				if ih.Flags != FlagLeaf {
					a.anom("%s element %d: inline page flags %#x", what, i, ih.Flags)
					continue
				}
				if ih.ID != 0 || ih.Overflow != 0 {
					a.anom("%s element %d: inline page id %d overflow %d", what, i, ih.ID, ih.Overflow)
				}
				f.walkLeaf(a, what+fmt.Sprintf(" inline %q", name), ip, ih, sub, nil, nil, false)
			} else {
				if len(val) != BucketHdrSize {
					a.anom("%s element %d: non-inline bucket value of %d bytes", what, i, len(val))
				}
				d := f.walkBucketPages(a, root, sub, false, 0)
				if d > a.Depth {
					a.Depth = d
				}
			}
		} else {
			if isRootBucket {
				a.anom("%s: plain key %q in the root bucket", what, name)
			}
			b.Keys[name] = append([]byte(nil), val...)
		}
	}
}

// AnalyzeCurrent is Analyze(Current()).
func (f *File) AnalyzeCurrent() (*Accounting, error) {
	m := f.Current()
	if m == nil {
		return nil, fmt.Errorf("refdec: no valid meta (meta0: %s, meta1: %s)", f.Metas[0].Why, f.Metas[1].Why)
	}
	return f.Analyze(m), nil
}

// SortedU64 returns a sorted copy.
func SortedU64(in []uint64) []uint64 {
	out := append([]uint64(nil), in...)
	sort.Slice(out, func(i, j int) bool { return out[i] < out[j] })
	return out
}

// EqualSets compares two id lists as sets and describes the first difference.
func EqualSets(a, b []uint64) string {
	as, bs := SortedU64(a), SortedU64(b)
	am := map[uint64]bool{}
	for _, x := range as {
		am[x] = true
	}
	bm := map[uint64]bool{}
	for _, x := range bs {
		bm[x] = true
	}
	var onlyA, onlyB []uint64
	for _, x := range as {
		if !bm[x] {
			onlyA = append(onlyA, x)
		}
	}
	for _, x := range bs {
		if !am[x] {
			onlyB = append(onlyB, x)
		}
	}
	if len(onlyA) == 0 && len(onlyB) == 0 {
		if len(as) != len(bs) {
			return fmt.Sprintf("same set but %d vs %d entries (duplicates)", len(as), len(bs))
		}
		return ""
	}
	trim := func(x []uint64) []uint64 {
		if len(x) > 12 {
			return x[:12]
		}
		return x
	}
	return fmt.Sprintf("only left %v (%d), only right %v (%d)", trim(onlyA), len(onlyA), trim(onlyB), len(onlyB))
}

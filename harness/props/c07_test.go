package props

import (
	"testing"

	"pgregory.net/rapid"

	"go.etcd.io/bbolt/verifh/drv"
	"go.etcd.io/bbolt/verifh/gen"
)

const c07Rule = "C04-style histories weighted towards bucket deletion (nested, on clean and modified parents), MoveBucket, rollbacks, commits failing on a size limit, reopenings with re-drawn options, all page sizes; after every commit, failed commit and reopen the independent decoder's page accounting must be anomaly-free (every page below the high-water mark exactly one of meta / freelist / reachable once / listed free once; key order; element bounds; file length) and Stats, Tx.Check, Tx.Page and the in-memory free list must agree with it. Non-trivial = some commit left pending (freed) pages after a bucket deletion, move or bulk delete, in a database that has >=3 tree levels or overflow pages. Distinct = SHA-256 of the op log."

func TestC07(t *testing.T) {
	col := newCollector("C07", c07Rule)
	defer col.Flush()
	rapid.Check(t, func(rt *rapid.T) { c07Case(rt, col) })
}

func c07Case(rt *rapid.T, col *collector) {
	e := drv.NewEnv("c07")
	defer e.Cleanup()
	var excluded int
	cfg := c04Cfg(&excluded)
	cfg.BucketWeight = 3
	cfg.ErrProbes = false
	cfg.Cursors = false
	fail := func(v *drv.Violation) {
		failCase(rt, replayDoc{Property: "C07", Kind: "history", Ops: e.Log}, v)
	}
	c07Install(e)
	if rapid.IntRange(0, 6).Draw(rt, "maxsize") == 0 {
		o := gen.Opts(rt, cfg)
		o.MaxSize = rapid.SampledFrom([]int{48 << 10, 96 << 10, 200 << 10}).Draw(rt, "maxsizeval")
		o.InitialMmapSize = 0
		cfg.FixedOpts = &o
		e.AllowCommitErr = true
	}
	runHistory(rt, e, cfg, nil, fail)
	finishHistory(e, fail)
	nt := e.Labels["freed-after-structural-delete"] > 0 && (e.Labels["depth>=3"] > 0 || e.Labels["overflow-pages"] > 0)
	col.Add(e.Log, nt, e.Labels)
	col.Count("excluded_by_known_finding", excluded)
	col.Count("accounting_checks", e.Labels["commit"]+e.Labels["open"]+e.Labels["commit-failed"])
}

// c07Install hooks the accounting oracle behind every commit, failed commit and open.
func c07Install(e *drv.Env) {
	structural := 0
	e.AfterCommit = func(e *drv.Env, txid int) *drv.Violation {
		a, v := checkAccounting(e, "after commit")
		structLabels(e, a)
		now := e.Labels["bucket-deleted"] + e.Labels["bucket-moved"] + e.Labels["bulkdel"]
		if v == nil && now > structural && e.DB.Stats().PendingPageN > 0 {
			e.Label("freed-after-structural-delete")
		}
		structural = now
		return v
	}
	e.AfterOpen = func(e *drv.Env) *drv.Violation {
		_, v := checkAccounting(e, "after open")
		return v
	}
	e.AfterFailure = func(e *drv.Env, err error) *drv.Violation {
		if !isMaxSize(err) {
			return drv.Violf("commit failed with %v (only the size limit may fail here)", err)
		}
		if v := e.CheckCommitted("after failed commit"); v != nil {
			return v
		}
		_, v := checkAccounting(e, "after failed commit")
		return v
	}
}

func replayHistoryC07(t *testing.T, d replayDoc) *drv.Violation {
	e := drv.NewEnv("c07r")
	defer e.Cleanup()
	c07Install(e)
	e.AllowCommitErr = true
	for _, op := range d.Ops {
		if v := e.Apply(op); v != nil {
			return v
		}
	}
	var out *drv.Violation
	finishHistory(e, func(v *drv.Violation) {
		if out == nil {
			out = v
		}
	})
	return out
}

func init() { replayFuncs["C07"] = replayHistoryC07 }

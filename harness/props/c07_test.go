package props

import (
	"fmt"
	"testing"

	"pgregory.net/rapid"

	"go.etcd.io/bbolt/verifh/drv"
	"go.etcd.io/bbolt/verifh/gen"
	"go.etcd.io/bbolt/verifh/refdec"
)

const c07Rule = "C04-style histories weighted towards bucket deletion (nested, on clean and modified parents), MoveBucket, rollbacks, commits failing on a size limit or an injected I/O fault, reopenings with re-drawn options, all page sizes; after every commit, failed commit and reopen the independent decoder's page accounting must be anomaly-free (every page below the high-water mark exactly one of meta / freelist / reachable once / listed free once; key order; element bounds; file length) and Stats, Tx.Check, Tx.Page and the in-memory free list must agree with it. Non-trivial = some commit left pending (freed) pages after a bucket deletion, move or bulk delete, in a database that has >=3 tree levels or overflow pages. Distinct = SHA-256 of the op log."

func TestC07(t *testing.T) {
	col := newCollector("C07", c07Rule)
	defer col.Flush()
	rapid.Check(t, func(rt *rapid.T) { c07Case(rt, col) })
}

func c07Case(rt *rapid.T, col *collector) {
	e := drv.NewEnv("c07")
	defer e.Cleanup()
	var excluded int
	cfg := c04Cfg(&excluded)
	cfg.BucketWeight = 3
	cfg.ErrProbes = false
	cfg.Cursors = false
	fail := func(v *drv.Violation) {
		failCase(rt, replayDoc{Property: "C07", Kind: "history", Ops: e.Log}, v)
	}
	c07Install(e)
	e.AllowCommitErr = true
	if rapid.IntRange(0, 3).Draw(rt, "withfaults") == 0 {
		cfg.Faults = 3
	}
	if rapid.IntRange(0, 6).Draw(rt, "maxsize") == 0 {
		o := gen.Opts(rt, cfg)
		o.MaxSize = rapid.SampledFrom([]int{48 << 10, 96 << 10, 200 << 10}).Draw(rt, "maxsizeval")
		o.InitialMmapSize = 0
		cfg.FixedOpts = &o
		e.AllowCommitErr = true
	}
	runHistory(rt, e, cfg, nil, fail)
	finishHistory(e, fail)
	nt := e.Labels["freed-after-structural-delete"] > 0 && (e.Labels["depth>=3"] > 0 || e.Labels["overflow-pages"] > 0)
	col.Add(e.Log, nt, e.Labels)
	col.Count("excluded_by_known_finding", excluded)
	col.Count("accounting_checks", e.Labels["commit"]+e.Labels["open"]+e.Labels["commit-failed"])
}

// c07Install hooks the accounting oracle behind every commit, failed commit and open.
func c07Install(e *drv.Env) {
	structural := 0
	e.AfterCommit = func(e *drv.Env, txid int) *drv.Violation {
		a, v := checkAccounting(e, "after commit")
		structLabels(e, a)
		now := e.Labels["bucket-deleted"] + e.Labels["bucket-moved"] + e.Labels["bulkdel"]
		if v == nil && now > structural && e.DB.Stats().PendingPageN > 0 {
			e.Label("freed-after-structural-delete")
		}
		structural = now
		return v
	}
	e.AfterOpen = func(e *drv.Env) *drv.Violation {
		_, v := checkAccounting(e, "after open")
		return v
	}
	e.AfterFailure = failureOracle // size limit or an injected I/O fault; ends with the accounting oracle
}

func replayHistoryC07(t *testing.T, d replayDoc) *drv.Violation {
	e := drv.NewEnv("c07r")
	defer e.Cleanup()
	c07Install(e)
	e.AllowCommitErr = true
	for _, op := range d.Ops {
		if v := e.Apply(op); v != nil {
			return v
		}
	}
	var out *drv.Violation
	finishHistory(e, func(v *drv.Violation) {
		if out == nil {
			out = v
		}
	})
	return out
}

func init() { replayFuncs["C07"] = replayHistoryC07 }

// ---------------------------------------------------------------------------------------------
// directed: free lists whose serialised size walks across page boundaries

const c07BoundaryRule = "directed walk of the free-list size across page boundaries: a database with several hundred single-leaf keys loses a generated prefix of them in one commit (free list of 1-6 pages), then a reader pins every freed page (so that pending ids accumulate and the new freelist page is allocated at the high-water mark) - or, in other cases, no reader is open (freelist taken from free pages) - and 150-400 small commits (1-3 single-page overwrites, 0-2 key deletions each) let free+pending grow by a few ids per commit through every residue of (16+8n) mod pageSize; the accounting oracle (independent decoder: count fits the freelist pages, ids sorted, every page accounted once; Stats, Tx.Check, Tx.Page, in-memory list) runs after every commit, then after reopening with the other backend and with freelist sync off (scan = persisted). Non-trivial = some commit had its free-list size within 48 bytes below or 24 bytes above a page boundary with a freelist of >= 2 pages. Distinct = SHA-256 of the op log."

func TestC07FreelistBoundary(t *testing.T) {
	col := newCollector(getenv("VERIF_PROP", "C07"), c07BoundaryRule)
	defer col.Flush()
	rapid.Check(t, func(rt *rapid.T) {
		e := drv.NewEnv("c07b")
		defer e.Cleanup()
		e.SkipDumpAfter = true
		prop := getenv("VERIF_PROP", "C07")
		fail := func(v *drv.Violation) {
			failCase(rt, replayDoc{Property: prop, Kind: "boundary-history", Ops: e.Log}, v)
		}
		do := func(op drv.Op) {
			if v := e.Apply(op); v != nil {
				fail(v)
			}
		}
		ps := rapid.SampledFrom([]int{1024, 1024, 2048}).Draw(rt, "pagesize")
		backend := rapid.SampledFrom([]string{"array", "hashmap"}).Draw(rt, "freelist")
		near, hits := 0, map[int]int{}
		c07Install(e)
		inner := e.AfterCommit
		ncommit := 0
		e.AfterCommit = func(e *drv.Env, txid int) *drv.Violation {
			free, pending, all := memFreelist(e)
			n := len(free) + len(pending)
			size := 16 + 8*n
			ncommit++
			if r := size % ps; size > ps && (r >= ps-48 || r < 24) {
				near++
				hits[(r+48)%ps/8]++
				return inner(e, txid) // the complete accounting oracle
			}
			if ncommit%16 == 0 {
				return inner(e, txid)
			}
			// elsewhere the structural part only: clean decode, and the persisted list is the in-memory list
			_, a, v := decodeFile(e)
			if v != nil {
				return v
			}
			if !a.Clean() {
				return drv.Violf("after commit: page accounting by the independent decoder: %v", a.Anomalies)
			}
			if d := refdec.EqualSets(all, a.FreeIDs); d != "" {
				return drv.Violf("after commit: in-memory free+pending ids differ from the persisted freelist page (memory vs file): %s", d)
			}
			return nil
		}
		do(drv.Op{Op: drv.OpOpen, Opts: &drv.OpenOpts{PageSize: ps, Freelist: backend, InitialMmapSize: 32 << 20, AllocSize: 64 << 10}})
		d, pre := drv.Lit("d"), drv.Lit("k")
		dpath := []drv.B{d}
		total := rapid.IntRange(250, 700).Draw(rt, "keys")
		val := drv.B{S: "v", N: ps * 55 / 100}
		do(drv.Op{Op: drv.OpBeginRW})
		do(drv.Op{Op: drv.OpCreate, Key: &d})
		do(drv.Op{Op: drv.OpBulkPut, Path: dpath, Key: &pre, From: 0, To: total, Val: &val})
		const small = 6
		sval := drv.B{S: "s", N: ps / 2}
		sk := drv.Lit("x")
		for i := 0; i < small; i++ {
			b := drv.Lit(fmt.Sprintf("t%d", i))
			do(drv.Op{Op: drv.OpCreate, Key: &b})
			do(drv.Op{Op: drv.OpPut, Path: []drv.B{b}, Key: &sk, Val: &sval})
		}
		do(drv.Op{Op: drv.OpCommit})
		gone := rapid.IntRange(100, total-60).Draw(rt, "deleted")
		do(drv.Op{Op: drv.OpBeginRW})
		do(drv.Op{Op: drv.OpBulkDel, Path: dpath, Key: &pre, From: 0, To: gone})
		do(drv.Op{Op: drv.OpCommit})
		pinned := rapid.IntRange(0, 3).Draw(rt, "pinned") > 0
		if pinned {
			do(drv.Op{Op: drv.OpBeginRO, Tx: 1})
		}
		next := gone
		for i, n := 0, rapid.IntRange(150, 400).Draw(rt, "commits"); i < n; i++ {
			do(drv.Op{Op: drv.OpBeginRW})
			m := rapid.IntRange(1, 3).Draw(rt, "overwrites")
			first := rapid.IntRange(0, small-1).Draw(rt, "firstsmall")
			for j := 0; j < m; j++ {
				b := drv.Lit(fmt.Sprintf("t%d", (first+j)%small))
				v := drv.B{S: string(rune('a' + i%26)), N: ps / 2}
				do(drv.Op{Op: drv.OpPut, Path: []drv.B{b}, Key: &sk, Val: &v})
			}
			if del := rapid.IntRange(0, 2).Draw(rt, "dels"); del > 0 && next+del < total-2 {
				do(drv.Op{Op: drv.OpBulkDel, Path: dpath, Key: &pre, From: next, To: next + del})
				next += del
			}
			do(drv.Op{Op: drv.OpCommit})
		}
		if pinned {
			do(drv.Op{Op: drv.OpCloseRO, Tx: 1})
		}
		do(drv.Op{Op: drv.OpProbe})
		other := map[string]string{"array": "hashmap", "hashmap": "array"}[backend]
		do(drv.Op{Op: drv.OpReopen, Opts: &drv.OpenOpts{Freelist: other}})
		do(drv.Op{Op: drv.OpReopen, Opts: &drv.OpenOpts{Freelist: backend, NoFreelistSync: true}})
		do(drv.Op{Op: drv.OpReopen, Opts: &drv.OpenOpts{Freelist: other}})
		labels := map[string]int{"pagesize-" + fmt.Sprint(ps): 1, "backend-" + backend: 1}
		if pinned {
			labels["reader-pins-freed-pages"] = 1
		}
		for off, c := range hits {
			labels[fmt.Sprintf("size-offset-%+d-bytes-from-boundary", off*8-48)] = c
		}
		col.Add(e.Log, near > 0, labels)
		col.Count("commits_near_a_page_boundary", near)
		col.Count("accounting_checks", e.Labels["commit"]+e.Labels["open"])
	})
}

package props

import (
	"os"
	"path/filepath"
	"sync"
	"sync/atomic"
	"syscall"
	"testing"
	"time"

	"pgregory.net/rapid"

	bolt "go.etcd.io/bbolt"

	"go.etcd.io/bbolt/verifh/drv"
	"go.etcd.io/bbolt/verifh/gen"
	"go.etcd.io/bbolt/verifh/model"
	"go.etcd.io/bbolt/verifh/refdec"
)

const c14Rule = "generated history, then a reader R; a generated number of further write transactions age R; then R is copied with WriteTo into a harness writer whose Write callback synchronously runs further generated write transactions BETWEEN chunks (a deterministic interleaving of commits inside the copy), or with CopyFile; a concurrent variant runs a committing writer goroutine during the copy. Oracle: bytes written = returned n = R.Size(); the copy opens; its dump equals the model of the version R started from; the independent decoder's accounting of the copy is clean; Tx.Check is clean; meta 0 carries R's txid and meta 1 a lower one; the copy accepts a write. Non-trivial = a commit that took pages from the free list (a new page below the previous high-water mark) happened between R's begin and the end of the copy. Distinct = SHA-256 of the op log."

type hookWriter struct {
	buf     []byte
	between func()
	calls   int
}

func (w *hookWriter) Write(p []byte) (int, error) {
	w.buf = append(w.buf, p...)
	w.calls++
	if w.between != nil {
		w.between()
	}
	return len(p), nil
}

// c14CheckCopy verifies a backup image against the snapshot it was taken from.
func c14CheckCopy(img []byte, n int64, size int64, rid int, want *model.Bucket, how string) *drv.Violation {
	if n != size || int64(len(img)) != size {
		return drv.Violf("%s: copy is %d bytes, WriteTo returned %d, Tx.Size() is %d", how, len(img), n, size)
	}
	f, err := refdec.Open(img, 0)
	if err != nil {
		return drv.Violf("%s: independent decoder cannot read the copy: %v", how, err)
	}
	if !f.Metas[0].Valid || !f.Metas[1].Valid {
		return drv.Violf("%s: meta pages of the copy: meta0 valid=%v (%s) meta1 valid=%v (%s)", how, f.Metas[0].Valid, f.Metas[0].Why, f.Metas[1].Valid, f.Metas[1].Why)
	}
	if int(f.Metas[0].Txid) != rid || f.Metas[1].Txid >= f.Metas[0].Txid {
		return drv.Violf("%s: copy has meta0.txid=%d meta1.txid=%d, reader txid %d (want meta0 = reader, meta1 lower)", how, f.Metas[0].Txid, f.Metas[1].Txid, rid)
	}
	a := f.Analyze(f.Current())
	if !a.Clean() {
		return drv.Violf("%s: page accounting of the copy: %v", how, a.Anomalies)
	}
	if d := model.Diff(a.Tree, want); d != "" {
		return drv.Violf("%s: content of the copy (independent decoder) differs from the reader's snapshot: %s", how, d)
	}
	e := drv.NewEnv("c14c")
	defer e.Cleanup()
	if err := os.WriteFile(e.Path, img, 0o600); err != nil {
		return drv.Violf("write copy: %v", err)
	}
	e.Committed = want
	if err := e.Open(drv.OpenOpts{}); err != nil {
		return drv.Violf("%s: the copy does not open: %v", how, err)
	}
	if v := e.CheckCommitted(how + ": copy"); v != nil {
		return v
	}
	if _, v := checkAccounting(e, how+": copy"); v != nil {
		return v
	}
	kb, k, val := drv.Lit("zz-backup"), drv.Lit("k"), drv.B{S: "v", N: 300}
	for _, op := range []drv.Op{{Op: drv.OpBeginRW}, {Op: drv.OpCreateINE, Key: &kb}, {Op: drv.OpPut, Path: []drv.B{kb}, Key: &k, Val: &val}, {Op: drv.OpCommit}} {
		if v := e.Apply(op); v != nil {
			return drv.Violf("%s: write on the copy: %s", how, v.Msg)
		}
	}
	return nil
}

// c14MovePath renames the data file away and puts a different (valid, empty) database at its path; the
// returned function undoes that. The open handle of the database under test keeps referring to the moved file.
func c14MovePath(e *drv.Env) (func(), *drv.Violation) {
	moved := e.Path + ".moved"
	if err := os.Rename(e.Path, moved); err != nil {
		return nil, drv.Violf("rename: %v", err)
	}
	restore := func() {
		_ = os.Remove(e.Path)
		_ = os.Rename(moved, e.Path)
	}
	// built under another name (the I/O hook dispatches by path) and renamed into place
	decoy, err := bolt.Open(e.Path+".decoy", 0o600, &bolt.Options{PageSize: e.PageSize, NoFreelistSync: true})
	if err == nil {
		err = decoy.Update(func(tx *bolt.Tx) error {
			b, err := tx.CreateBucket([]byte("decoy"))
			if err != nil {
				return err
			}
			return b.Put([]byte("decoy"), make([]byte, 3*e.PageSize))
		})
		_ = decoy.Close()
	}
	if err == nil {
		err = os.Rename(e.Path+".decoy", e.Path)
	}
	if err != nil {
		restore()
		return nil, drv.Violf("decoy database: %v", err)
	}
	return restore, nil
}

func c14Cfg(excluded *int) gen.Cfg {
	cfg := c04Cfg(excluded)
	cfg.ErrProbes, cfg.Cursors, cfg.Probes, cfg.Readers, cfg.Reopen = false, false, false, false, false
	cfg.CommitWeight = 30
	return cfg
}

func TestC14(t *testing.T) {
	col := newCollector("C14", c14Rule)
	defer col.Flush()
	rapid.Check(t, func(rt *rapid.T) {
		e := drv.NewEnv("c14")
		defer e.Cleanup()
		var excluded int
		cfg := c14Cfg(&excluded)
		o := gen.Opts(rt, cfg)
		// now and then a database of several MiB (many copy chunks) copied to a slow writer
		large := rapid.IntRange(0, 11).Draw(rt, "large") == 0
		o.InitialMmapSize = 32 << 20 // no remap while the reader is open on this goroutine
		if large {
			o.InitialMmapSize = 512 << 20
		}
		o.AllocSize = 64 << 10 // keep the file itself small (grow in small chunks)
		cfg.FixedOpts = &o
		fail := func(v *drv.Violation) {
			failCase(rt, replayDoc{Property: "C14", Kind: "history", Ops: e.Log}, v)
		}
		vt := newVerTracker()
		reuse := false
		watching := false
		// commits may fail (armed I/O faults): a backup must be valid whatever happened while its reader was open
		if rapid.IntRange(0, 2).Draw(rt, "withfaults") == 0 {
			cfg.Faults = 4
		}
		e.AllowCommitErr = true
		e.AfterFailure = func(e *drv.Env, err error) *drv.Violation {
			if v := failureOracle(e, err); v != nil {
				return v
			}
			_, v := vt.record(e, "failed commit")
			return v
		}
		e.AfterOpen = func(e *drv.Env) *drv.Violation { _, v := vt.record(e, "open"); return v }
		e.AfterCommit = func(e *drv.Env, txid int) *drv.Violation {
			if _, v := vt.record(e, "commit"); v != nil {
				return v
			}
			if watching {
				for p := range vt.pages[txid] {
					if prev := vt.pages[txid-1]; prev != nil && !prev[p] && p < vt.hwm[txid-1] {
						reuse = true
						break
					}
				}
			}
			return nil
		}
		step := func() {
			op := gen.Next(rt, e, cfg)
			if v := e.Apply(op); v != nil {
				fail(v)
			}
		}
		// base history
		for i, n := 0, rapid.IntRange(5, 60).Draw(rt, "base"); i < n; i++ {
			step()
		}
		if e.RW != nil {
			if v := e.Apply(drv.Op{Op: drv.OpCommit}); v != nil {
				fail(v)
			}
		}
		if e.DB == nil {
			return
		}
		if large {
			kb := drv.Lit("zz-large")
			pre := drv.Lit("L")
			val := drv.B{S: "L", N: rapid.SampledFrom([]int{60 << 10, 100 << 10, 200 << 10}).Draw(rt, "largeval")}
			ops := []drv.Op{{Op: drv.OpBeginRW}, {Op: drv.OpCreateINE, Key: &kb},
				{Op: drv.OpBulkPut, Path: []drv.B{kb}, Key: &pre, From: 0, To: rapid.IntRange(24, 50).Draw(rt, "largekeys"), Val: &val}, {Op: drv.OpCommit}}
			for _, op := range ops {
				if v := e.Apply(op); v != nil {
					fail(v)
				}
			}
			e.Label("several-MiB-database")
		}
		// the reader, aged by further transactions
		if v := e.Apply(drv.Op{Op: drv.OpBeginRO, Tx: 1}); v != nil {
			fail(v)
		}
		watching = true
		for i, n := 0, rapid.IntRange(0, 40).Draw(rt, "age"); i < n; i++ {
			step()
		}
		R := e.ROTx(1)
		want := e.ROModel(1)
		rid := e.ROTxid(1)
		mode := rapid.SampledFrom([]string{"writeto", "writeto", "copyfile", "copy"}).Draw(rt, "mode")
		// Tx.WriteFlag != 0 makes the copy re-open the file by path (and fall back to the open handle when the path
		// no longer names the same file); "moved" replaces the path by another database for the duration of the copy
		wflag := rapid.SampledFrom([]int{0, 0, syscall.O_NOATIME, syscall.O_DSYNC}).Draw(rt, "writeflag")
		moved := wflag != 0 && rapid.IntRange(0, 3).Draw(rt, "moved") == 0
		bop := drv.Op{Op: "backup", Note: mode, U: uint64(wflag)}
		if moved {
			bop.To = 1
		}
		e.Log = append(e.Log, bop)
		var img []byte
		var n int64
		size := R.Size()
		R.WriteFlag = wflag
		restore := func() {}
		if moved {
			r, v := c14MovePath(e)
			if v != nil {
				fail(v)
			}
			restore = r
			e.Label("path-replaced-during-copy")
		}
		if wflag != 0 {
			e.Label("writeflag")
		}
		if mode == "writeto" {
			burst := rapid.IntRange(0, 12).Draw(rt, "burst")
			if large && burst > 2 {
				burst = 2 // hundreds of chunks: keep the history (and the map) bounded
			}
			if moved {
				burst = 0 // the harness' own oracles read the file by path
			}
			slow := large || rapid.IntRange(0, 9).Draw(rt, "slowwriter") == 0
			w := &hookWriter{between: func() {
				if slow {
					time.Sleep(time.Millisecond) // a destination slower than reading from the page cache
				}
				for i := 0; i < burst; i++ {
					step()
				}
			}}
			if slow {
				bop.From = 1
				e.Log[len(e.Log)-1] = bop
				e.Label("slow-writer")
			}
			var err error
			n, err = R.WriteTo(w)
			restore()
			if err != nil {
				fail(drv.Violf("WriteTo: %v", err))
			}
			img = w.buf
			col.Count("write_calls", w.calls)
		} else if mode == "copy" {
			w := &hookWriter{}
			err := R.Copy(w)
			restore()
			if err != nil {
				fail(drv.Violf("Copy: %v", err))
			}
			img, n = w.buf, int64(len(w.buf))
		} else {
			dst := filepath.Join(e.Dir, "copy.db")
			err := R.CopyFile(dst, 0o600)
			restore()
			if err != nil {
				fail(drv.Violf("CopyFile: %v", err))
			}
			img, _ = os.ReadFile(dst)
			n = int64(len(img))
		}
		if e.ROTx(1) != R {
			// the harness itself closed the reader (a remap was announced while it was open on this goroutine):
			// what was copied after that moment is not a snapshot of anything - not a case
			e.Label("reader-closed-for-remap-during-copy")
			col.Count("cases_dropped_reader_closed_for_remap", 1)
			return
		}
		if v := c14CheckCopy(img, n, size, rid, want, mode); v != nil {
			fail(v)
		}
		finishHistory(e, fail)
		if reuse {
			e.Label("freelist-reuse-during-reader")
		}
		e.Label("mode-" + mode)
		col.Add(e.Log, reuse, e.Labels)
	})
}

// TestC14Concurrent: the copy races with a committing writer goroutine.
func TestC14Concurrent(t *testing.T) {
	col := newCollector("C14", c14Rule)
	defer col.Flush()
	rapid.Check(t, func(rt *rapid.T) {
		// writer workload generated sequentially first
		g := drv.NewEnv("c14g")
		g.SkipDumpAfter = true
		var excluded int
		cfg := c14Cfg(&excluded)
		failg := func(v *drv.Violation) {
			drv.SetFailing()
			log := g.Log
			g.Cleanup()
			failCase(rt, replayDoc{Property: "C14", Kind: "history", Ops: log}, v)
		}
		runHistory(rt, g, cfg, nil, failg)
		finishHistory(g, failg)
		log := g.Log
		versions := g.Versions
		g.Cleanup()
		if len(log) < 2 {
			return
		}
		e := drv.NewEnv("c14b")
		defer e.Cleanup()
		e.SkipDumpAfter = true
		if v := e.Apply(log[0]); v != nil {
			failCase(rt, replayDoc{Property: "C14", Kind: "concurrent", Ops: log}, v)
		}
		db := e.DB
		var done atomic.Bool
		var mu sync.Mutex
		var viol *drv.Violation
		var copies atomic.Int64
		var wg sync.WaitGroup
		wg.Add(1)
		go func() {
			defer wg.Done()
			for !done.Load() {
				var img hookWriter
				var n, size int64
				var rid int
				err := db.View(func(tx *bolt.Tx) error {
					rid = tx.ID()
					size = tx.Size()
					var err error
					n, err = tx.WriteTo(&img)
					return err
				})
				var v *drv.Violation
				if err != nil {
					v = drv.Violf("concurrent WriteTo: %v", err)
				} else if want := versions[rid]; want == nil {
					v = drv.Violf("reader txid %d is not a committed version", rid)
				} else {
					v = c14CheckCopy(img.buf, n, size, rid, want, "concurrent writeto")
				}
				copies.Add(1)
				if v != nil {
					mu.Lock()
					if viol == nil {
						viol = v
					}
					mu.Unlock()
					return
				}
			}
		}()
		for _, op := range log[1:] {
			if v := e.Apply(op); v != nil {
				mu.Lock()
				if viol == nil {
					viol = v
				}
				mu.Unlock()
				break
			}
		}
		finishHistory(e, func(v *drv.Violation) {})
		done.Store(true)
		wg.Wait()
		if viol != nil {
			failCase(rt, replayDoc{Property: "C14", Kind: "concurrent", Ops: log}, viol)
		}
		col.Add(log, copies.Load() >= 2 && e.Labels["commit"] >= 2, map[string]int{"concurrent": 1})
		col.Count("concurrent_copies", int(copies.Load()))
	})
}

func replayC14(t *testing.T, d replayDoc) *drv.Violation {
	// deterministic part: re-run the log; the op "backup" takes the copy of reader 1
	e := drv.NewEnv("c14r")
	defer e.Cleanup()
	e.AllowCommitErr = true
	e.AfterFailure = failureOracle
	var pendingOps []drv.Op
	for i, op := range d.Ops {
		if op.Op == "backup" {
			R := e.ROTx(1)
			if R == nil {
				return nil
			}
			want, rid, size := e.ROModel(1), e.ROTxid(1), R.Size()
			rest := d.Ops[i+1:]
			pendingOps = rest
			pos := 0
			w := &hookWriter{}
			var hv *drv.Violation
			slowW := op.From == 1
			w.between = func() {
				if slowW {
					time.Sleep(time.Millisecond)
				}
				// replay the remaining ops spread over the chunks (same order, interleaving approximated)
				for k := 0; k < 4 && pos < len(rest) && hv == nil; k++ {
					if rest[pos].Op == drv.OpCloseRO {
						return
					}
					hv = e.Apply(rest[pos])
					pos++
				}
			}
			R.WriteFlag = int(op.U)
			if op.To == 1 {
				restore, v := c14MovePath(e)
				if v != nil {
					return v
				}
				defer restore()
				w.between = nil
			}
			if op.Note == "copy" {
				cw := &hookWriter{}
				if err := R.Copy(cw); err != nil {
					return drv.Violf("Copy: %v", err)
				}
				return c14CheckCopy(cw.buf, int64(len(cw.buf)), size, rid, want, "copy")
			}
			if op.Note == "copyfile" {
				dst := filepath.Join(e.Dir, "copy.db")
				if err := R.CopyFile(dst, 0o600); err != nil {
					return drv.Violf("CopyFile: %v", err)
				}
				img, _ := os.ReadFile(dst)
				return c14CheckCopy(img, int64(len(img)), size, rid, want, "copyfile")
			}
			n, err := R.WriteTo(w)
			if err != nil {
				return drv.Violf("WriteTo: %v", err)
			}
			if hv != nil {
				return hv
			}
			return c14CheckCopy(w.buf, n, size, rid, want, "writeto")
		}
		if v := e.Apply(op); v != nil {
			return v
		}
	}
	_ = pendingOps
	return nil
}

func init() { replayFuncs["C14"] = replayC14 }

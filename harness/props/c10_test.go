package props

import (
	"testing"

	"pgregory.net/rapid"

	"go.etcd.io/bbolt/verifh/drv"
	"go.etcd.io/bbolt/verifh/gen"
	"go.etcd.io/bbolt/verifh/refdec"
)

const c10Rule = "histories of write transactions (overwrite, delete, bucket churn, bulk ops) interleaved with generated reader open/close patterns, reopenings, both backends, freelist sync on/off and probe transactions (empty Begin(true)+Rollback). With page sets taken from the independent decoder: (i) after a commit that began with no reader open at most the pages released by that very commit are pending; (ii) whenever a writer begins (or a probe ran) with no reader open nothing is pending and the free ids are exactly the ids below the high-water mark that the current version does not use; (iii) with readers open no free id belongs to a version an open reader (or the newest commit) references; (iv) a commit that began with no reader open and made only single-page allocations grows the high-water mark only after using up every free page. Non-trivial = a reader spanned >=2 commits, was closed, and a writer begin/probe followed (so reclamation after the reader is actually checked). Distinct = SHA-256 of the op log."

type c10State struct {
	pages          map[int]map[uint64]bool // txid -> pages of that version
	hwm            map[int]uint64
	single         map[int]bool // version wrote only single-page nodes
	readersAtBegin int
	readerSpan     map[int]int // reader id -> commits seen while open
	closedLong     bool
}

func TestC10(t *testing.T) {
	col := newCollector("C10", c10Rule)
	defer col.Flush()
	rapid.Check(t, func(rt *rapid.T) {
		e := drv.NewEnv("c10")
		defer e.Cleanup()
		var excluded int
		cfg := c04Cfg(&excluded)
		cfg.ErrProbes, cfg.Cursors = false, false
		cfg.MaxReaders = 4
		cfg.ReaderBoost = 2
		cfg.CommitWeight = 40
		if rapid.IntRange(0, 3).Draw(rt, "withfaults") == 0 {
			// a transaction that fails on an I/O error must give back everything it took from the free list
			cfg.Faults, cfg.FaultKinds = 3, "W,S,T,GS,"
			e.AllowCommitErr = true
		}
		if rapid.IntRange(0, 5).Draw(rt, "maxsize") == 0 {
			// a transaction that fails on the size limit must give back everything it took from the free list
			o := gen.Opts(rt, cfg)
			o.MaxSize = rapid.SampledFrom([]int{48 << 10, 96 << 10, 200 << 10}).Draw(rt, "maxsizeval")
			o.InitialMmapSize = 0
			cfg.FixedOpts = &o
			e.AllowCommitErr = true
		}
		fail := func(v *drv.Violation) {
			failCase(rt, replayDoc{Property: "C10", Kind: "history", Ops: e.Log}, v)
		}
		st := c10Install(e)
		runHistory(rt, e, cfg, st.after(e), fail)
		finishHistory(e, fail)
		// final probe with no reader open: everything released so far must be reusable
		if v := e.Apply(drv.Op{Op: drv.OpProbe}); v != nil {
			fail(v)
		}
		if v := st.after(e)(drv.Op{Op: drv.OpProbe}); v != nil {
			fail(v)
		}
		col.Add(e.Log, e.Labels["reclaim-checked-after-long-reader"] > 0, e.Labels)
		col.Count("excluded_by_known_finding", excluded)
	})
}

func c10Install(e *drv.Env) *c10State {
	st := &c10State{pages: map[int]map[uint64]bool{}, hwm: map[int]uint64{}, single: map[int]bool{}, readerSpan: map[int]int{}}
	record := func(e *drv.Env, when string) (*refdec.Accounting, *drv.Violation) {
		_, a, v := decodeFile(e)
		if v != nil {
			return nil, v
		}
		if !a.Clean() {
			return nil, drv.Violf("%s: accounting anomalies (leak or corruption, see C07): %v", when, a.Anomalies)
		}
		st.pages[e.LastTxid] = a.Pages()
		st.hwm[e.LastTxid] = a.HWM
		single := a.Overflows == 0 && a.FreelistN <= 1
		st.single[e.LastTxid] = single
		return a, nil
	}
	e.AfterOpen = func(e *drv.Env) *drv.Violation {
		a, v := record(e, "after open")
		if v != nil {
			return v
		}
		free, pending, _ := memFreelist(e)
		if len(pending) != 0 {
			return drv.Violf("after open: %d pages pending although no transaction ran", len(pending))
		}
		return st.exactFree(e, a.HWM, free, "after open")
	}
	e.AfterFailure = func(e *drv.Env, err error) *drv.Violation {
		if (e.Failed == nil || !e.FailedInTx) && !isMaxSize(err) {
			return drv.Violf("commit failed with %v without an injected fault or the size limit", err)
		}
		e.FailAt = 0
		e.Label("size-limit-or-fault-failure")
		// nothing was committed; whatever the failed transaction took from the free list must be reusable
		// again: checked at the next writer begin / probe (exact free set when no reader is open)
		return nil
	}
	e.AfterCommit = func(e *drv.Env, txid int) *drv.Violation {
		prev := st.pages[txid-1]
		a, v := record(e, "after commit")
		if v != nil {
			return v
		}
		for id := range st.readerSpan {
			if e.RO[id] != nil {
				st.readerSpan[id]++
			}
		}
		if prev == nil {
			return nil
		}
		cur := st.pages[txid]
		released, added := 0, 0
		for p := range prev {
			if !cur[p] {
				released++
			}
		}
		for p := range cur {
			if !prev[p] {
				added++
			}
		}
		if st.readersAtBegin == 0 {
			stt := e.DB.Stats()
			if stt.PendingPageN > released {
				return drv.Violf("after commit %d (no reader was open): %d pages pending, but the commit released only %d pages", txid, stt.PendingPageN, released)
			}
			if st.single[txid] {
				bound := st.hwm[txid-1]
				if b := uint64(2 + len(prev) + added); b > bound {
					bound = b
				}
				if a.HWM > bound {
					return drv.Violf("after commit %d (no reader open, single-page allocations only): high-water mark grew to %d although %d would have sufficed (previous hwm %d, previous version %d pages, %d new pages)", txid, a.HWM, bound, st.hwm[txid-1], len(prev), added)
				}
				e.Label("growth-bound-checked")
			}
		}
		return nil
	}
	return st
}

// exactFree: with no reader open the free ids are exactly the ids the current version does not use.
func (st *c10State) exactFree(e *drv.Env, hwm uint64, free []uint64, when string) *drv.Violation {
	cur := st.pages[e.LastTxid]
	var want []uint64
	for id := uint64(2); id < hwm; id++ {
		if !cur[id] {
			want = append(want, id)
		}
	}
	if d := refdec.EqualSets(free, want); d != "" {
		return drv.Violf("%s (no reader open): reusable ids differ from the ids unused by the newest version (free list vs expected): %s", when, d)
	}
	return nil
}

func (st *c10State) after(e *drv.Env) func(op drv.Op) *drv.Violation {
	return func(op drv.Op) *drv.Violation {
		switch op.Op {
		case drv.OpBeginRO:
			if e.RO[op.Tx] != nil {
				st.readerSpan[op.Tx] = 0
			}
		case drv.OpCloseRO:
			if st.readerSpan[op.Tx] >= 2 {
				st.closedLong = true
			}
			delete(st.readerSpan, op.Tx)
		case drv.OpBeginRW, drv.OpProbe:
			if e.DB == nil || e.Opts.ReadOnly {
				return nil
			}
			if op.Op == drv.OpBeginRW {
				st.readersAtBegin = len(e.RO)
			}
			free, pending, _ := memFreelist(e)
			if len(e.RO) == 0 {
				if len(pending) != 0 {
					return drv.Violf("%s with no reader open: %d pages are still pending (not reusable)", op.Op, len(pending))
				}
				if v := st.exactFree(e, st.hwm[e.LastTxid], free, op.Op); v != nil {
					return v
				}
				if op.Op == drv.OpProbe {
					s := e.DB.Stats()
					if s.PendingPageN != 0 || s.FreePageN != len(free) {
						return drv.Violf("probe: Stats reports free=%d pending=%d, free list has %d free", s.FreePageN, s.PendingPageN, len(free))
					}
				}
				if st.closedLong {
					e.Label("reclaim-checked-after-long-reader")
					st.closedLong = false
				}
			} else {
				visible := []map[uint64]bool{st.pages[e.LastTxid]}
				for id := range e.RO {
					visible = append(visible, st.pages[e.ROTxid(id)])
				}
				for _, f := range free {
					for _, vs := range visible {
						if vs[f] {
							return drv.Violf("%s with %d reader(s) open: page %d is reusable although a visible version references it", op.Op, len(e.RO), f)
						}
					}
				}
				e.Label("safety-checked-with-readers")
			}
		}
		return nil
	}
}

func replayHistoryC10(t *testing.T, d replayDoc) *drv.Violation {
	e := drv.NewEnv("c10r")
	defer e.Cleanup()
	e.AllowCommitErr = true
	st := c10Install(e)
	aft := st.after(e)
	for _, op := range d.Ops {
		if v := e.Apply(op); v != nil {
			return v
		}
		if v := aft(op); v != nil {
			return v
		}
	}
	var out *drv.Violation
	finishHistory(e, func(v *drv.Violation) {
		if out == nil {
			out = v
		}
	})
	if out == nil {
		if v := e.Apply(drv.Op{Op: drv.OpProbe}); v != nil {
			return v
		}
		out = aft(drv.Op{Op: drv.OpProbe})
	}
	return out
}

func init() { replayFuncs["C10"] = replayHistoryC10 }

var _ = gen.DefaultCfg

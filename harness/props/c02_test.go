package props

import (
	"runtime"
	"runtime/debug"
	"sync"
	"sync/atomic"
	"testing"
	"time"

	"pgregory.net/rapid"

	bolt "go.etcd.io/bbolt"

	"go.etcd.io/bbolt/verifh/drv"
	"go.etcd.io/bbolt/verifh/gen"
	"go.etcd.io/bbolt/verifh/model"
)

const c02Rule = "(A) generated sequences over {begin reader, close reader, dump reader, read through a reader, writer transaction with a generated workload ending in commit, rollback or a FAILED commit (armed I/O fault on a write/sync/truncate call, or a size limit), probe, reopen} with up to 6 simultaneously open readers of different ages, some of them begun from inside a commit (the I/O hook begins a reader while the writer stands at a generated data write, sync, truncate or at the very call an armed fault is about to fail - e.g. the final sync after the meta write), both backends, freelist sync on/off, initial map sizes that do and do not force a remap - executed on one goroutine (a remap is announced by the hook before it takes the lock; the harness then compares and closes the readers, a legal schedule). After EVERY commit, rollback and at every close each open reader's complete view (buckets, keys, values, sequences, forward and backward order, tx id) is compared with the model of the version it started from. (B) the same oracle with real goroutines: reader goroutines loop begin/dump/compare/yield/dump/compare/rollback while a writer goroutine commits a generated workload; hook callbacks yield at every I/O call. Non-trivial (A) = some reader stayed open across a commit that released pages of the reader's version and a later commit, still during the reader's life, took pages from the free list (page sets from the independent decoder); (B) = a reader observed >=2 different versions during the run and dumps overlapped commits. Distinct = SHA-256 of the op log."

func c02Cfg(excluded *int) gen.Cfg {
	cfg := c04Cfg(excluded)
	cfg.ErrProbes, cfg.Cursors = false, false
	cfg.MaxReaders = 6
	cfg.ReaderBoost = 3
	cfg.CommitWeight = 35
	cfg.Faults = 3      // commits that fail on an injected write/sync/truncate error are "roll backs" too
	cfg.MidReaders = 20 // readers begun from inside a commit: while the writer stands at one of its I/O calls
	return cfg
}

type c02State struct {
	vt       *verTracker
	sawFree  map[int]bool // reader id -> a commit released pages of its version
	nontriv  bool
	reuseAny bool
}

func c02Install(e *drv.Env) *c02State {
	st := &c02State{vt: newVerTracker(), sawFree: map[int]bool{}}
	e.BeforeRemap = func(e *drv.Env) { e.Label("remap-with-readers") }
	e.AfterOpen = func(e *drv.Env) *drv.Violation {
		_, v := st.vt.record(e, "after open")
		return v
	}
	e.AfterFailure = func(e *drv.Env, err error) *drv.Violation {
		if e.Failed == nil || !e.FailedInTx {
			if !isMaxSize(err) {
				return drv.Violf("commit failed with %v without an injected fault", err)
			}
		} else if e.FailedFinalSync {
			_, a, v := decodeFile(e)
			if v != nil {
				return v
			}
			if int(a.Meta.Txid) == e.FailedTxid {
				e.AdoptFailed()
			}
		}
		e.FailAt = 0
		e.Label("failed-commit-with-readers-possible")
		if v := e.CompareReaders("after a failed commit"); v != nil {
			return v
		}
		if v := e.CheckCommitted("after a failed commit"); v != nil {
			return v
		}
		_, v := st.vt.record(e, "after a failed commit")
		return v
	}
	e.AfterCommit = func(e *drv.Env, txid int) *drv.Violation {
		if v := e.CompareReaders("after commit"); v != nil {
			return v
		}
		if _, v := st.vt.record(e, "after commit"); v != nil {
			return v
		}
		cur, prev := st.vt.pages[txid], st.vt.pages[txid-1]
		// did this commit take pages from the free list? (a new page below the previous high-water mark)
		reused := false
		for p := range cur {
			if prev != nil && !prev[p] && p < st.vt.hwm[txid-1] {
				reused = true
				break
			}
		}
		for id := range e.RO {
			if reused && st.sawFree[id] {
				st.nontriv = true
			}
			for p := range st.vt.pages[e.ROTxid(id)] {
				if !cur[p] {
					st.sawFree[id] = true
					break
				}
			}
		}
		return nil
	}
	return st
}

func c02After(e *drv.Env, st *c02State) func(op drv.Op) *drv.Violation {
	return func(op drv.Op) *drv.Violation {
		switch op.Op {
		case drv.OpRollback, drv.OpProbe:
			return e.CompareReaders("after " + op.Op)
		case drv.OpCloseRO:
			delete(st.sawFree, op.Tx)
		}
		return nil
	}
}

func TestC02(t *testing.T) {
	col := newCollector("C02", c02Rule)
	defer col.Flush()
	rapid.Check(t, func(rt *rapid.T) {
		e := drv.NewEnv("c02")
		defer e.Cleanup()
		e.AllowCommitErr = true
		var excluded int
		cfg := c02Cfg(&excluded)
		if rapid.IntRange(0, 7).Draw(rt, "maxsize") == 0 {
			o := gen.Opts(rt, cfg)
			o.MaxSize = rapid.SampledFrom([]int{48 << 10, 96 << 10, 200 << 10}).Draw(rt, "maxsizeval")
			o.InitialMmapSize = 0
			cfg.FixedOpts = &o
		}
		fail := func(v *drv.Violation) {
			failCase(rt, replayDoc{Property: "C02", Kind: "history", Ops: e.Log}, v)
		}
		st := c02Install(e)
		runHistory(rt, e, cfg, c02After(e, st), fail)
		finishHistory(e, fail)
		if st.nontriv {
			e.Label("reader-outlived-free-and-reuse")
		}
		if e.RemapClosed > 0 {
			e.Label("readers-closed-for-remap")
		}
		col.Add(e.Log, st.nontriv, e.Labels)
	})
}

func replayC02(t *testing.T, d replayDoc) *drv.Violation {
	if d.Kind == "concurrent" {
		var v *drv.Violation
		for i := 0; i < 30 && v == nil; i++ {
			v, _ = c02Concurrent(d.Ops, 4, nil)
		}
		return v
	}
	e := drv.NewEnv("c02r")
	defer e.Cleanup()
	e.AllowCommitErr = true
	st := c02Install(e)
	aft := c02After(e, st)
	for _, op := range d.Ops {
		if v := e.Apply(op); v != nil {
			return v
		}
		if v := aft(op); v != nil {
			return v
		}
	}
	var out *drv.Violation
	finishHistory(e, func(v *drv.Violation) {
		if out == nil {
			out = v
		}
	})
	return out
}

func init() { replayFuncs["C02"] = replayC02 }

// ---------------------------------------------------------------------------------------------
// (B) true concurrency

// c02Concurrent replays log (a history without readers and reopen) on a writer goroutine while
// nReaders goroutines keep checking snapshots against versions (txid -> model).
func c02Concurrent(log []drv.Op, nReaders int, stats map[string]int) (*drv.Violation, int) {
	// sequential pre-run: the versions every txid must show
	pre := drv.NewEnv("c02bpre")
	pre.SkipDumpAfter = true
	for _, op := range log {
		if v := pre.Apply(op); v != nil {
			pre.Cleanup()
			return drv.Violf("sequential pre-run: %s", v.Msg), 0
		}
	}
	finishHistory(pre, func(v *drv.Violation) {})
	versions := pre.Versions
	pre.Cleanup()

	e := drv.NewEnv("c02b")
	defer e.Cleanup()
	e.SkipDumpAfter = true
	e.OnEvent = func(e *drv.Env, ev *bolt.VerifEvent) error {
		runtime.Gosched()
		return nil
	}
	var (
		mu       sync.Mutex
		viol     *drv.Violation
		done     atomic.Bool
		wg       sync.WaitGroup
		dumps    atomic.Int64
		multiVer atomic.Int64
		commits  atomic.Int64
	)
	setViol := func(v *drv.Violation) {
		mu.Lock()
		if viol == nil {
			viol = v
		}
		mu.Unlock()
	}
	// the first op opens the database
	if len(log) == 0 || log[0].Op != drv.OpOpen {
		return nil, 0
	}
	if v := e.Apply(log[0]); v != nil {
		return v, 0
	}
	db := e.DB
	for r := 0; r < nReaders; r++ {
		wg.Add(1)
		go func(r int) {
			defer wg.Done()
			debug.SetPanicOnFault(true)
			seen := map[int]bool{}
			for !done.Load() {
				func() {
					defer func() {
						if p := recover(); p != nil {
							setViol(drv.Violf("reader goroutine %d: panic while reading its snapshot: %v", r, p))
						}
					}()
					tx, err := db.Begin(false)
					if err != nil {
						setViol(drv.Violf("reader goroutine: Begin(false): %v", err))
						return
					}
					defer tx.Rollback()
					id := tx.ID()
					want := versions[id]
					if want == nil {
						setViol(drv.Violf("reader goroutine: tx id %d does not identify a committed version", id))
						return
					}
					c0 := commits.Load()
					for pass := 0; pass < 2; pass++ {
						got, dv := drv.DumpTx(tx)
						if dv != nil {
							setViol(drv.Violf("reader goroutine (txid %d, pass %d): %s", id, pass, dv.Msg))
							return
						}
						if d := model.Diff(got, want); d != "" {
							setViol(drv.Violf("reader goroutine (txid %d, pass %d) view differs from the version it started from: %s", id, pass, d))
							return
						}
						dumps.Add(1)
						if pass == 0 {
							if r%2 == 0 {
								runtime.Gosched()
							} else {
								time.Sleep(time.Duration(50*(r+1)) * time.Microsecond)
							}
						}
					}
					if commits.Load() > c0 {
						multiVer.Add(1) // at least one commit completed while this reader was open
					}
					seen[id] = true
				}()
				if viol != nil {
					return
				}
			}
		}(r)
	}
	e.AfterCommit = func(e *drv.Env, txid int) *drv.Violation {
		commits.Add(1)
		return nil
	}
	for _, op := range log[1:] {
		if v := e.Apply(op); v != nil {
			setViol(v)
			break
		}
		mu.Lock()
		stop := viol != nil
		mu.Unlock()
		if stop {
			break
		}
	}
	finishHistory(e, func(v *drv.Violation) { setViol(v) })
	done.Store(true)
	wg.Wait()
	if stats != nil {
		stats["dumps"] += int(dumps.Load())
		stats["readers_spanning_a_commit"] += int(multiVer.Load())
		stats["commits"] += int(commits.Load())
	}
	return viol, int(multiVer.Load())
}

func TestC02Concurrent(t *testing.T) {
	col := newCollector("C02", c02Rule)
	defer col.Flush()
	rapid.Check(t, func(rt *rapid.T) {
		// generate the writer's history sequentially
		g := drv.NewEnv("c02g")
		g.SkipDumpAfter = true
		var excluded int
		cfg := c02Cfg(&excluded)
		cfg.Readers, cfg.Reopen, cfg.Probes = false, false, false
		cfg.Faults = 0
		cfg.CommitWeight = 30
		failg := func(v *drv.Violation) {
			drv.SetFailing()
			log := g.Log
			g.Cleanup()
			failCase(rt, replayDoc{Property: "C02", Kind: "history", Ops: log}, v)
		}
		runHistory(rt, g, cfg, nil, failg)
		finishHistory(g, failg)
		drv.SetFailing()
		log := g.Log
		g.Cleanup()
		nr := rapid.IntRange(1, 6).Draw(rt, "readers")
		stats := map[string]int{}
		v, spanning := c02Concurrent(log, nr, stats)
		if v != nil {
			failCase(rt, replayDoc{Property: "C02", Kind: "concurrent", Ops: log}, v)
		}
		col.Add(log, spanning > 0, map[string]int{"concurrent": 1, "reader-spanned-commit": spanning})
		for k, n := range stats {
			col.Count("concurrent_"+k, n)
		}
	})
}

var _ = gen.DefaultCfg

package props

import (
	"hash/fnv"

	bolt "go.etcd.io/bbolt"

	"go.etcd.io/bbolt/verifh/drv"
	"go.etcd.io/bbolt/verifh/refdec"
)

// verTracker remembers, per committed version, which pages make it up (tree pages, overflow
// pages, freelist pages - from the independent decoder) and a hash of each of them.
type verTracker struct {
	pages  map[int]map[uint64]bool
	hashes map[int]map[uint64]uint64
	hwm    map[int]uint64
	slot   map[int]int
	metaH  map[int]uint64
}

func newVerTracker() *verTracker {
	return &verTracker{pages: map[int]map[uint64]bool{}, hashes: map[int]map[uint64]uint64{}, hwm: map[int]uint64{}, slot: map[int]int{}, metaH: map[int]uint64{}}
}

func pageHash(data []byte, id uint64, ps int) uint64 {
	h := fnv.New64a()
	off := int(id) * ps
	if off+ps > len(data) {
		if off < len(data) {
			h.Write(data[off:])
		}
		return h.Sum64()
	}
	h.Write(data[off : off+ps])
	return h.Sum64()
}

// record decodes the file and stores the newest version's page set and hashes under e.LastTxid.
func (vt *verTracker) record(e *drv.Env, when string) (*refdec.Accounting, *drv.Violation) {
	f, a, v := decodeFile(e)
	if v != nil {
		return nil, v
	}
	if !a.Clean() {
		return a, drv.Violf("%s: accounting anomalies: %v", when, a.Anomalies)
	}
	if int(a.Meta.Txid) != e.LastTxid {
		return a, drv.Violf("%s: newest valid meta has txid %d, model expects %d", when, a.Meta.Txid, e.LastTxid)
	}
	id := e.LastTxid
	vt.pages[id] = a.Pages()
	vt.hwm[id] = a.HWM
	vt.slot[id] = a.Meta.Slot
	hs := make(map[uint64]uint64, len(vt.pages[id]))
	for p := range vt.pages[id] {
		hs[p] = pageHash(f.Data, p, f.PageSize)
	}
	vt.hashes[id] = hs
	vt.metaH[id] = pageHash(f.Data, uint64(a.Meta.Slot), f.PageSize)
	return a, nil
}

// visible returns the txids of the newest committed version and of every open reader.
func (vt *verTracker) visible(e *drv.Env) []int {
	out := []int{e.LastTxid}
	for id := range e.RO {
		out = append(out, e.ROTxid(id))
	}
	return out
}

// verifyBytes re-hashes the pages of the given versions from the file and compares.
func (vt *verTracker) verifyBytes(e *drv.Env, versions []int, when string) *drv.Violation {
	data := e.FileBytes()
	for _, v := range versions {
		hs := vt.hashes[v]
		for p, h := range hs {
			if pageHash(data, p, e.PageSize) != h {
				return drv.Violf("%s: page %d of still-visible version %d was modified in the file", when, p, v)
			}
		}
	}
	return nil
}

// checkWrite is the per-write oracle of C06.
func (vt *verTracker) checkWrite(e *drv.Env, ev *bolt.VerifEvent) *drv.Violation {
	ps := e.PageSize
	if ps == 0 || len(vt.pages) == 0 {
		return nil // the initialisation write of a brand-new file
	}
	first := uint64(ev.Off) / uint64(ps)
	last := uint64(ev.Off+int64(len(ev.Data))-1) / uint64(ps)
	if first < 2 {
		if last != first || ev.Off%int64(ps) != 0 {
			return drv.Violf("write at offset %d length %d touches a meta page together with other data", ev.Off, len(ev.Data))
		}
		if s, ok := vt.slot[e.LastTxid]; ok && int(first) == s {
			return drv.Violf("meta write goes to slot %d, which holds the newest committed meta (txid %d)", first, e.LastTxid)
		}
		return nil
	}
	for _, v := range vt.visible(e) {
		pg := vt.pages[v]
		for p := first; p <= last; p++ {
			if pg[p] {
				return drv.Violf("write at offset %d length %d overwrites page %d, which belongs to visible version %d (newest committed %d, %d reader(s) open)", ev.Off, len(ev.Data), p, v, e.LastTxid, len(e.RO))
			}
		}
	}
	return nil
}

package props

import (
	"errors"
	"fmt"
	"sort"

	bolt "go.etcd.io/bbolt"
	berrors "go.etcd.io/bbolt/errors"

	"go.etcd.io/bbolt/verifh/drv"
	"go.etcd.io/bbolt/verifh/model"
	"go.etcd.io/bbolt/verifh/refdec"
)

// decodeFile runs the independent decoder over the current bytes of the data file.
func decodeFile(e *drv.Env) (*refdec.File, *refdec.Accounting, *drv.Violation) {
	f, err := refdec.Open(e.FileBytes(), 0)
	if err != nil {
		return nil, nil, drv.Violf("independent decoder cannot open the file: %v", err)
	}
	a, err := f.AnalyzeCurrent()
	if err != nil {
		return nil, nil, drv.Violf("independent decoder: %v", err)
	}
	return f, a, nil
}

func memFreelist(e *drv.Env) (free, pending, all []uint64) {
	f, p := e.DB.VerifFreelist()
	free = append(free, f...)
	for _, ids := range p {
		pending = append(pending, ids...)
	}
	all = append(append(all, free...), pending...)
	sort.Slice(all, func(i, j int) bool { return all[i] < all[j] })
	return
}

// checkAccounting is the C07 oracle (also used by C08, C12, C13, C18): the file decoded by the
// independent reader is a clean version-2 structure in which every page below the high-water mark is
// accounted for exactly once, it holds the model's content, and the database's own statistics,
// Tx.Check and Tx.Page agree with that accounting.
func checkAccounting(e *drv.Env, when string) (a *refdec.Accounting, v *drv.Violation) {
	// a panic of the code under test inside the oracle's own calls (Tx.Check, Tx.Page, Stats, ...) is a violation
	v = drv.Guard("accounting oracle "+when, func() *drv.Violation {
		var iv *drv.Violation
		a, iv = checkAccounting1(e, when)
		return iv
	})
	return a, v
}

func checkAccounting1(e *drv.Env, when string) (*refdec.Accounting, *drv.Violation) {
	_, a, v := decodeFile(e)
	if v != nil {
		return nil, drv.Violf("%s: %s", when, v.Msg)
	}
	if !a.Clean() {
		return a, drv.Violf("%s: page accounting by the independent decoder: %v", when, a.Anomalies)
	}
	if int(a.Meta.Txid) != e.LastTxid {
		return a, drv.Violf("%s: newest valid meta on disk has txid %d, last commit was %d", when, a.Meta.Txid, e.LastTxid)
	}
	if d := model.Diff(a.Tree, e.Committed); d != "" {
		return a, drv.Violf("%s: content decoded from the file differs from the model (file vs model): %s", when, d)
	}
	if e.DB == nil || e.Opts.ReadOnly {
		return a, nil
	}
	free, pending, all := memFreelist(e)
	if a.HasFreelist {
		if d := refdec.EqualSets(all, a.FreeIDs); d != "" {
			return a, drv.Violf("%s: in-memory free+pending ids differ from the persisted freelist page (memory vs file): %s", when, d)
		}
	} else {
		if d := refdec.EqualSets(all, a.Unreachable(true)); d != "" {
			return a, drv.Violf("%s: in-memory free+pending ids differ from the unreachable pages of the file (memory vs unreachable): %s", when, d)
		}
	}
	if !e.Opts.NoStatistics {
		st := e.DB.Stats()
		if st.FreePageN != len(free) || st.PendingPageN != len(pending) {
			return a, drv.Violf("%s: Stats reports FreePageN=%d PendingPageN=%d, free list holds %d free and %d pending", when, st.FreePageN, st.PendingPageN, len(free), len(pending))
		}
		// FreeAlloc is only maintained when a write transaction closes ("only updated when a transaction closes"),
		// so it is not asserted directly after Open.
		if e.WriteTxClosed && st.FreeAlloc != (len(free)+len(pending))*e.PageSize {
			return a, drv.Violf("%s: Stats.FreeAlloc=%d, want %d", when, st.FreeAlloc, (len(free)+len(pending))*e.PageSize)
		}
	}
	if errs := e.TxCheck(); len(errs) > 0 {
		return a, drv.Violf("%s: Tx.Check reports %d problem(s) on a file the independent decoder finds clean: %v", when, len(errs), errs)
	}
	// Tx.Page agrees with the roles
	tx, err := e.DB.Begin(false)
	if err != nil {
		return a, drv.Violf("%s: Begin(false): %v", when, err)
	}
	defer tx.Rollback()
	if tx.Size() != int64(a.HWM)*int64(e.PageSize) {
		return a, drv.Violf("%s: Tx.Size()=%d, high-water mark %d * page size %d", when, tx.Size(), a.HWM, e.PageSize)
	}
	isFree := map[uint64]bool{}
	for _, id := range all {
		isFree[id] = true
	}
	for id := uint64(0); id < a.HWM; id++ {
		var want string
		switch {
		case isFree[id]:
			want = "free"
		case a.Role[id] == refdec.RoleMeta:
			want = "meta"
		case a.Role[id] == refdec.RoleFreelist && a.Owner[id] == id:
			want = "freelist"
		case a.Role[id] == refdec.RoleBranch:
			want = "branch"
		case a.Role[id] == refdec.RoleLeaf:
			want = "leaf"
		default:
			continue // overflow pages carry no header
		}
		info, err := tx.Page(int(id))
		if err != nil || info == nil {
			return a, drv.Violf("%s: Tx.Page(%d): %v %v", when, id, info, err)
		}
		if info.Type != want {
			return a, drv.Violf("%s: Tx.Page(%d).Type=%q, independent decoder says %q", when, id, info.Type, want)
		}
	}
	if info, _ := tx.Page(int(a.HWM)); info != nil {
		return a, drv.Violf("%s: Tx.Page(hwm=%d) returned a page", when, a.HWM)
	}
	if v := checkBucketStats(tx, a, when); v != nil {
		return a, v
	}
	return a, nil
}

// checkBucketStats compares Bucket.Stats() of every bucket (clean read transaction) with the space accounting
// of the independent decoder: pages by kind, overflow pages, elements, buckets, inline buckets and allocated bytes.
func checkBucketStats(tx *bolt.Tx, a *refdec.Accounting, when string) *drv.Violation {
	budget := 60 // Stats is recursive: bound the number of buckets queried per call
	var walk func(b *bolt.Bucket, m *model.Bucket, path string) *drv.Violation
	walk = func(b *bolt.Bucket, m *model.Bucket, path string) *drv.Violation {
		if budget <= 0 {
			return nil
		}
		budget--
		want, buckets, inline := a.Subtree(m)
		got := b.Stats()
		type pair struct {
			name      string
			got, want int
		}
		for _, p := range []pair{
			{"BranchPageN", got.BranchPageN, want.Branch}, {"BranchOverflowN", got.BranchOverflowN, want.BranchOverflow},
			{"LeafPageN", got.LeafPageN, want.Leaf}, {"LeafOverflowN", got.LeafOverflowN, want.LeafOverflow},
			{"KeyN", got.KeyN, want.Elements}, {"BucketN", got.BucketN, buckets}, {"InlineBucketN", got.InlineBucketN, inline},
			// the *Inuse byte counts are not compared: they depend on how elements are packed inside a page,
			// which the version-2 layout leaves open (positions are explicit)
			{"BranchAlloc", got.BranchAlloc, (want.Branch + want.BranchOverflow) * tx.DB().Info().PageSize},
			{"LeafAlloc", got.LeafAlloc, (want.Leaf + want.LeafOverflow) * tx.DB().Info().PageSize},
		} {
			if p.got != p.want {
				return drv.Violf("%s: Bucket(%s).Stats().%s=%d, the independent decoder counts %d", when, path, p.name, p.got, p.want)
			}
		}
		names := make([]string, 0, len(m.Sub))
		for n := range m.Sub {
			names = append(names, n)
		}
		sort.Strings(names)
		for _, n := range names {
			sb := b.Bucket([]byte(n))
			if sb == nil {
				return drv.Violf("%s: bucket %s/%q decoded from the file is not returned by Bucket()", when, path, n)
			}
			if v := walk(sb, m.Sub[n], path+"/"+fmt.Sprintf("%q", n)); v != nil {
				return v
			}
		}
		return nil
	}
	names := make([]string, 0, len(a.Tree.Sub))
	for n := range a.Tree.Sub {
		names = append(names, n)
	}
	sort.Strings(names)
	for _, n := range names {
		b := tx.Bucket([]byte(n))
		if b == nil {
			return drv.Violf("%s: top-level bucket %q decoded from the file is not returned by Tx.Bucket", when, n)
		}
		if v := walk(b, a.Tree.Sub[n], fmt.Sprintf("%q", n)); v != nil {
			return v
		}
	}
	return nil
}

func structLabels(e *drv.Env, a *refdec.Accounting) {
	if a == nil {
		return
	}
	if a.Depth >= 3 {
		e.Label("depth>=3")
	}
	if a.Depth == 2 {
		e.Label("depth2")
	}
	if a.Overflows > 0 {
		e.Label("overflow-pages")
	}
	if a.InlineBuckets > 0 {
		e.Label("inline-bucket")
	}
	if a.Buckets-a.InlineBuckets > 1 {
		e.Label("paged-nested-bucket")
	}
	if a.BucketsWithSeq > 0 {
		e.Label("bucket-with-seq")
	}
	if a.Branches > 0 {
		e.Label("branch-page")
	}
	if a.HasFreelist && len(a.FreeIDs) > 0 {
		e.Label("nonempty-freelist")
	}
	if !a.HasFreelist {
		e.Label("freelist-not-persisted")
	}
}

func isMaxSize(err error) bool { return errors.Is(err, berrors.ErrMaxSizeReached) }

var _ = fmt.Sprintf
var _ = bolt.DefaultFillPercent

// failureOracle is the shared reaction to a commit that returned an error inside a generated history:
// only an injected fault or the size limit may fail a commit; after a failed final sync the newest version
// is re-determined from the file; then dump, readers and accounting are checked.
func failureOracle(e *drv.Env, err error) *drv.Violation {
	if e.Failed == nil || !e.FailedInTx {
		if !isMaxSize(err) {
			return drv.Violf("commit failed with %v without an injected fault", err)
		}
	} else if e.FailedFinalSync {
		_, a, v := decodeFile(e)
		if v != nil {
			return v
		}
		if int(a.Meta.Txid) == e.FailedTxid {
			e.AdoptFailed()
		}
	}
	e.FailAt = 0
	if v := e.CheckCommitted("after a failed commit"); v != nil {
		return v
	}
	if v := e.CompareReaders("after a failed commit"); v != nil {
		return v
	}
	_, v := checkAccounting(e, "after a failed commit")
	return v
}

package props

import (
	"errors"
	"fmt"
	"testing"

	"pgregory.net/rapid"

	berrors "go.etcd.io/bbolt/errors"

	"go.etcd.io/bbolt/verifh/drv"
	"go.etcd.io/bbolt/verifh/gen"
)

const c08Rule = "a generated workload (history with readers, rollbacks, reopenings; some under a small MaxSize) is executed once to count the I/O calls it issues (pwrite, fdatasync, ftruncate, grow-sync, mmap); then it is re-executed from scratch with the k-th call failing once, for a generated set of positions k (thorough: every k). Oracle at the failure: the call returns an error; for every position except the fdatasync that follows the meta write the in-process dump equals the pre-transaction model and the newest valid meta on disk is the old one; for that final sync the state is all-or-nothing and identical in memory, on disk and after reopen; page accounting by the independent decoder is exact and equals the in-memory free list; readers open across the failure - and, at every third position, a reader begun from the I/O hook while the writer stands at the failing call - keep their snapshot there and after every later commit; the following transactions (the rest of the workload) behave per model and the next writer does not block (watchdog). A failed mmap may leave the handle unusable (ErrInvalidMapping) but Close and reopen show the old state. Non-trivial = the failing call was inside a commit that both allocated and freed pages. Distinct = (workload hash, k)."

type c08Doc struct {
	K int `json:"k"`
	// ReaderAtFault: a read transaction is begun (from the I/O hook, same goroutine) while the writer stands at the
	// failing call - before the meta write it must see the old version, at the final sync the new one - and lives on
	ReaderAtFault bool `json:"reader_at_fault,omitempty"`
}

// c08Fault runs log with I/O event k failing once (k = 0: no fault) and applies the C08 oracle.
func c08Fault(log []drv.Op, k int, readerAtFault bool) (*drv.Env, *drv.Violation) {
	e := drv.NewEnv("c08")
	e.AllowCommitErr = true
	e.FailAt = k
	if readerAtFault {
		e.MidAtFaultSlot = 9 // a slot the workload's own readers (1..3) never use
	}
	reopenNow := k%3 == 0
	needReopen := false
	var lastOpts drv.OpenOpts
	handled := false
	e.AfterFailure = func(e *drv.Env, err error) *drv.Violation {
		injected := e.Failed != nil && e.FailedInTx && !handled
		if injected {
			handled = true
		}
		if !injected {
			// not the injected fault: only the size limit may fail a commit
			if isMaxSize(err) {
				e.Label("maxsize-failure")
				if v := e.CheckCommitted("after size-limit failure"); v != nil {
					return v
				}
				_, v := checkAccounting(e, "after size-limit failure")
				return v
			}
			return drv.Violf("commit failed with %v although no fault was injected into it", err)
		}
		e.Label("fault-in-commit-" + e.Failed.Kind)
		if e.ReadersAtFailure > 0 {
			e.Label("readers-open-across-failure")
		}
		if e.Failed.Kind == "M" {
			// the map is gone: the handle may be unusable, but it must say so promptly and reopen must work
			needReopen = true
			return nil
		}
		_, a, v := decodeFile(e)
		if v != nil {
			return v
		}
		if e.FailedFinalSync {
			e.Label("final-sync-failed")
			if int(a.Meta.Txid) == e.FailedTxid {
				e.AdoptFailed()
				e.Label("final-sync-failed-tx-present")
			}
		}
		if int(a.Meta.Txid) != e.LastTxid {
			return drv.Violf("after a failed %s inside commit %d: newest valid meta on disk has txid %d, expected %d", e.Failed.Kind, e.FailedTxid, a.Meta.Txid, e.LastTxid)
		}
		if v := e.CheckCommitted("in process after failed commit"); v != nil {
			return v
		}
		if _, v := checkAccounting(e, "after failed commit"); v != nil {
			return v
		}
		if v := e.CompareReaders("after failed commit"); v != nil {
			return v
		}
		if reopenNow {
			needReopen = true
		}
		return nil
	}
	e.AfterCommit = func(e *drv.Env, txid int) *drv.Violation {
		if e.Failed != nil {
			// tail: readers that lived through the failure must keep their snapshot across later commits
			if v := e.CompareReaders("after a commit following the failure"); v != nil {
				return v
			}
			e.Label("tail-commit")
		}
		_, v := checkAccounting(e, "after commit")
		return v
	}
	// openTolerant opens the file; an Open that fails because the injected fault hit one of ITS I/O calls
	// must have released everything: a second Open must then succeed.
	openTolerant := func(o drv.OpenOpts) *drv.Violation {
		had := e.Failed != nil
		err := e.Open(o)
		if err != nil {
			if had || e.Failed == nil || drv.IsPanic(err) {
				return drv.Violf("Open failed without an injected fault (or panicked): %v", err)
			}
			e.Label("fault-in-open-" + e.Failed.Kind)
			if err := e.Open(o); err != nil {
				return drv.Violf("Open after a failed Open (injected %s failure): %v", e.Failed.Kind, err)
			}
		}
		if v := e.CheckCommitted("after open"); v != nil {
			return v
		}
		_, v := checkAccounting(e, "after open")
		return v
	}
	reopen := func() *drv.Violation {
		needReopen = false
		if v := e.CompareReaders("before reopen"); v != nil && (e.Failed == nil || e.Failed.Kind != "M") {
			return v
		}
		if err := e.CloseDB(); err != nil {
			return drv.Violf("Close after failure: %v", err)
		}
		o := lastOpts
		o.PageSize = 0
		return openTolerant(o)
	}
	for _, op := range log {
		if op.Op == drv.OpOpen || op.Op == drv.OpReopen {
			lastOpts = *op.Opts
			if op.Op == drv.OpReopen {
				if err := e.CloseDB(); err != nil {
					return e, drv.Violf("close: %v", err)
				}
			}
			e.Log = append(e.Log, op)
			if v := openTolerant(*op.Opts); v != nil {
				return e, v
			}
			continue
		}
		if needReopen {
			if v := reopen(); v != nil {
				return e, v
			}
		}
		if v := e.Apply(op); v != nil {
			return e, v
		}
	}
	if needReopen {
		if v := reopen(); v != nil {
			return e, v
		}
	}
	var out *drv.Violation
	finishHistory(e, func(v *drv.Violation) {
		if out == nil {
			out = v
		}
	})
	if out == nil && e.DB != nil {
		o := lastOpts
		o.PageSize = 0
		if err := e.CloseDB(); err != nil {
			out = drv.Violf("final close: %v", err)
		} else {
			out = openTolerant(o)
		}
	}
	return e, out
}

type c08Commit struct {
	firstEvent, lastEvent int
	allocAndFree          bool
}

func TestC08(t *testing.T) {
	col := newCollector("C08", c08Rule)
	defer col.Flush()
	all := testingTier() == "thorough"
	rapid.Check(t, func(rt *rapid.T) {
		// 1. the workload, generated while executing without faults
		e := drv.NewEnv("c08w")
		var excluded int
		cfg := c04Cfg(&excluded)
		cfg.ErrProbes, cfg.Cursors, cfg.Probes = false, false, false
		cfg.MaxReaders = 3
		cfg.ReaderBoost = 2
		cfg.CommitWeight = 25
		if rapid.IntRange(0, 7).Draw(rt, "maxsize") == 0 {
			o := gen.Opts(rt, cfg)
			o.MaxSize = rapid.SampledFrom([]int{48 << 10, 96 << 10, 200 << 10}).Draw(rt, "maxsizeval")
			o.InitialMmapSize = 0
			cfg.FixedOpts = &o
			e.AllowCommitErr = true
		}
		var commits []c08Commit
		startEv := 0
		e.AfterCommit = func(e *drv.Env, txid int) *drv.Violation {
			st := e.DB.Stats()
			commits = append(commits, c08Commit{firstEvent: startEv + 1, lastEvent: e.EventN, allocAndFree: st.PendingPageN > 1 && e.EventN-startEv >= 4})
			return nil
		}
		fail0 := func(v *drv.Violation) {
			drv.SetFailing()
			log := e.Log
			e.Cleanup()
			failCase(rt, replayDoc{Property: "C08", Kind: "fault", Ops: log, Extra: mustJSON(c08Doc{K: 0})}, v)
		}
		runHistory(rt, e, cfg, func(op drv.Op) *drv.Violation {
			if op.Op == drv.OpBeginRW {
				startEv = e.EventN
			}
			return nil
		}, fail0)
		finishHistory(e, fail0)
		log := e.Log
		K := e.EventN
		e.Cleanup()
		if K == 0 {
			return
		}
		// 2. fault positions
		var ks []int
		limit := 25
		if all || K <= limit {
			for k := 1; k <= K; k++ {
				ks = append(ks, k)
			}
		} else {
			// all positions of one drawn commit plus a drawn spread
			seen := map[int]bool{}
			if len(commits) > 0 {
				c := commits[rapid.IntRange(0, len(commits)-1).Draw(rt, "commit")]
				for k := c.firstEvent; k <= c.lastEvent && len(ks) < limit; k++ {
					ks = append(ks, k)
					seen[k] = true
				}
			}
			for len(ks) < limit {
				k := rapid.IntRange(1, K).Draw(rt, "k")
				if !seen[k] {
					seen[k] = true
					ks = append(ks, k)
				}
			}
		}
		wh := hashOf(log)
		for ki, k := range ks {
			raf := ki%3 == 2 // every third position: a reader begins at the very call that fails
			e2, v := c08Fault(log, k, raf)
			labels := e2.Labels
			e2.Cleanup()
			if v != nil {
				failCase(rt, replayDoc{Property: "C08", Kind: "fault", Ops: log, Extra: mustJSON(c08Doc{K: k, ReaderAtFault: raf})}, drv.Violf("with I/O call #%d of %d failing once (reader begun at the failing call: %v): %s", k, K, raf, v.Msg))
			}
			nt := false
			for _, c := range commits {
				if k >= c.firstEvent && k <= c.lastEvent && c.allocAndFree {
					nt = true
				}
			}
			col.AddKeyed(fmt.Sprintf("%s/%d", wh, k), nt)
			col.mu.Lock()
			for l, n := range labels {
				if n > 0 && (len(l) > 5 && (l[:5] == "fault" || l[:5] == "final" || l[:5] == "reade" || l[:5] == "tail-" || l[:5] == "maxsi")) {
					col.Labels[l]++
				}
			}
			col.mu.Unlock()
		}
		col.Sample(map[string]any{"workload_ops": len(log), "io_calls": K, "fault_positions": ks, "first_ops": sampleOf(log)})
		col.Count("workloads", 1)
		col.Count("io_calls_total", K)
		if all {
			col.Count("workloads_all_positions", 1)
		}
	})
}

func testingTier() string {
	return getenv("VERIF_TIER", "quick")
}

func replayC08(t *testing.T, d replayDoc) *drv.Violation {
	var doc c08Doc
	_ = jsonUnmarshal(d.Extra, &doc)
	e, v := c08Fault(d.Ops, doc.K, doc.ReaderAtFault)
	e.Cleanup()
	return v
}

func init() { replayFuncs["C08"] = replayC08 }

var _ = errors.Is
var _ = berrors.ErrInvalidMapping

package props

import (
	"bytes"
	"fmt"
	"os"
	"os/exec"
	"path/filepath"
	"sort"
	"strings"
	"testing"

	"pgregory.net/rapid"

	bolt "go.etcd.io/bbolt"

	"go.etcd.io/bbolt/verifh/drv"
	"go.etcd.io/bbolt/verifh/gen"
	"go.etcd.io/bbolt/verifh/refdec"
)

const c19Rule = "clean side: the end state of every generated history must give 0 errors from Tx.Check and exit status 0 from `bbolt check` (every other check of this framework additionally runs Tx.Check after every commit). Corrupt side: for a generated base file with a persisted freelist, every eligible target (quick: up to 6 per class, thorough: all) of each class is corrupted with the independent decoder's byte patchers: (1) unreachable-unfreed: an id dropped from the freelist page; (2) reachable-freed: the id of a reachable page added to the freelist page - first page of a node AND an overflow page of a node; (3) referenced twice: a branch element or a bucket root retargeted to a sibling; (4) freed twice: a freelist id duplicated; (5) invalid type: flags of a reachable page set to 0x00 / 0x20 / 0x03; (6) key order: two equal-length keys of a leaf swapped, a key made equal to its predecessor, a leaf's first key made smaller than its parent separator (far below and minimally below), a leaf's last key raised to the separator of its next sibling, two branch keys swapped. Only mutations that keep every offset inside the file are generated. Oracle: the independent decoder must confirm an anomaly on the mutated file (sanity of the construction), then Tx.Check (database opened read-write with default options; read-only with preloaded freelist, as the CLI opens it; read-only with the hash-map freelist backend) must report >=1 error and `bbolt check` must exit non-zero. Non-trivial = every (base, class, target) triple; distinct by triple."

type c19Mut struct {
	Class  string `json:"class"`
	Target string `json:"target"`
	apply  func(f *refdec.File) bool
}

// c19Mutations enumerates the corruptions of base file f (version m), at most perClass per class (0 = all).
func c19Mutations(f *refdec.File, perClass int, pick func(n int) int) []c19Mut {
	m := f.Current()
	a := f.Analyze(m)
	pages := f.TreePages(m)
	var out []c19Mut
	add := func(class string, cands []c19Mut) {
		if perClass > 0 && len(cands) > perClass {
			// generated selection without replacement
			sel := map[int]bool{}
			var chosen []c19Mut
			for len(chosen) < perClass {
				i := pick(len(cands))
				if !sel[i] {
					sel[i] = true
					chosen = append(chosen, cands[i])
				}
			}
			cands = chosen
		}
		out = append(out, cands...)
	}
	if !a.HasFreelist {
		return nil
	}
	free := append([]uint64(nil), a.FreeIDs...)
	cap := f.FreelistCapacity(m)
	// (1) drop an id
	var c1 []c19Mut
	for i := range free {
		i := i
		c1 = append(c1, c19Mut{Class: "unreachable-unfreed", Target: fmt.Sprintf("drop free id %d", free[i]), apply: func(g *refdec.File) bool {
			ids := append(append([]uint64(nil), free[:i]...), free[i+1:]...)
			return g.WriteFreelist(g.Current(), ids) == nil
		}})
	}
	add("unreachable-unfreed", c1)
	// (2) reachable freed: first pages and overflow pages
	var c2a, c2b []c19Mut
	insertSorted := func(ids []uint64, id uint64) []uint64 {
		out := append(append([]uint64(nil), ids...), id)
		sort.Slice(out, func(i, j int) bool { return out[i] < out[j] })
		return out
	}
	if len(free)+1 <= cap {
		for _, p := range pages {
			id := p.ID
			c2a = append(c2a, c19Mut{Class: "reachable-freed", Target: fmt.Sprintf("free list gains reachable page %d", id), apply: func(g *refdec.File) bool {
				return g.WriteFreelist(g.Current(), insertSorted(free, id)) == nil
			}})
			for o := uint64(1); o <= uint64(p.Overflow); o++ {
				oid := p.ID + o
				c2b = append(c2b, c19Mut{Class: "reachable-freed-overflow", Target: fmt.Sprintf("free list gains page %d, an overflow page of reachable page %d", oid, p.ID), apply: func(g *refdec.File) bool {
					return g.WriteFreelist(g.Current(), insertSorted(free, oid)) == nil
				}})
				if o >= 3 {
					break
				}
			}
		}
	}
	add("reachable-freed", c2a)
	add("reachable-freed-overflow", c2b)
	// (3) referenced twice
	var c3 []c19Mut
	var bucketRoots []refdec.Elem
	for _, p := range pages {
		if p.Flags == refdec.FlagBranch && len(p.Elems) >= 2 {
			for i := 0; i+1 < len(p.Elems); i++ {
				e, sib := p.Elems[i], p.Elems[i+1]
				c3 = append(c3, c19Mut{Class: "referenced-twice", Target: fmt.Sprintf("branch page %d element %d retargeted from page %d to sibling page %d", p.ID, i, e.Child, sib.Child), apply: func(g *refdec.File) bool {
					g.SetBranchChild(e, sib.Child)
					return true
				}})
			}
		}
		for _, e := range p.Elems {
			if e.IsBucket && e.BucketRoot != 0 {
				bucketRoots = append(bucketRoots, e)
			}
		}
	}
	for i := 0; i+1 < len(bucketRoots); i++ {
		e, o := bucketRoots[i], bucketRoots[i+1]
		c3 = append(c3, c19Mut{Class: "referenced-twice", Target: fmt.Sprintf("bucket root retargeted from page %d to page %d (root of another bucket)", e.BucketRoot, o.BucketRoot), apply: func(g *refdec.File) bool {
			g.SetBucketRoot(e, o.BucketRoot)
			return true
		}})
	}
	add("referenced-twice", c3)
	// (4) freed twice
	var c4 []c19Mut
	if len(free)+1 <= cap {
		for i := range free {
			id := free[i]
			c4 = append(c4, c19Mut{Class: "freed-twice", Target: fmt.Sprintf("free id %d listed twice", id), apply: func(g *refdec.File) bool {
				return g.WriteFreelist(g.Current(), insertSorted(free, id)) == nil
			}})
		}
	}
	add("freed-twice", c4)
	// (5) invalid type
	var c5 []c19Mut
	for _, p := range pages {
		for _, fl := range []uint16{0x00, 0x20, 0x03} {
			id, fl := p.ID, fl
			c5 = append(c5, c19Mut{Class: "invalid-type", Target: fmt.Sprintf("page %d flags set to %#02x", id, fl), apply: func(g *refdec.File) bool {
				g.SetPageFlags(id, fl)
				return true
			}})
		}
	}
	add("invalid-type", c5)
	// (6) key order
	var c6a, c6b, c6c, c6d, c6e []c19Mut
	for _, p := range pages {
		p := p
		if p.Flags == refdec.FlagLeaf {
			for i := 0; i+1 < len(p.Elems); i++ {
				x, y := p.Elems[i], p.Elems[i+1]
				if x.KeyLen == y.KeyLen && !x.IsBucket && !y.IsBucket {
					c6a = append(c6a, c19Mut{Class: "key-order-leaf", Target: fmt.Sprintf("keys %d and %d of leaf page %d swapped", i, i+1, p.ID), apply: func(g *refdec.File) bool {
						return g.SwapKeys(x, y)
					}})
				}
			}
			// a key made EQUAL to its predecessor (strictly increasing order is required within a page)
			for i := 0; i+1 < len(p.Elems); i++ {
				a, b := p.Elems[i], p.Elems[i+1]
				if a.KeyLen == b.KeyLen && !a.IsBucket && !b.IsBucket {
					i := i
					c6d = append(c6d, c19Mut{Class: "key-order-duplicate", Target: fmt.Sprintf("key %d of leaf page %d made equal to key %d", i+1, p.ID, i), apply: func(g *refdec.File) bool {
						copy(g.Data[p.Elems[i+1].KeyOff:], g.Key(p.Elems[i]))
						return true
					}})
				}
			}
			// last key of a leaf raised to the separator of the next sibling in the parent (upper bound)
			if p.Parent != 0 && len(p.Elems) > 0 {
				var sepNext []byte
				for _, q := range pages {
					if q.ID == p.Parent && p.ParentIx+1 < len(q.Elems) {
						sepNext = append([]byte(nil), f.Key(q.Elems[p.ParentIx+1])...)
					}
				}
				last := p.Elems[len(p.Elems)-1]
				if sepNext != nil && len(sepNext) == last.KeyLen && !last.IsBucket {
					c6e = append(c6e, c19Mut{Class: "key-order-upper", Target: fmt.Sprintf("last key of leaf page %d raised to the separator of its next sibling in branch page %d", p.ID, p.Parent), apply: func(g *refdec.File) bool {
						copy(g.Data[last.KeyOff:], sepNext)
						return true
					}})
				}
			}
			if p.Parent != 0 && p.ParentIx > 0 && len(p.Elems) > 0 {
				// first key below the parent's separator: decrement its first differing-capable byte
				e := p.Elems[0]
				// minimal lowering: the largest same-length key below the separator (usually still above
				// everything in the left sibling, so only the parent bound is violated)
				c6b = append(c6b, c19Mut{Class: "key-order-parent", Target: fmt.Sprintf("first key of leaf page %d lowered minimally below its separator in branch page %d", p.ID, p.Parent), apply: func(g *refdec.File) bool {
					k := g.Data[e.KeyOff : e.KeyOff+e.KeyLen]
					for i := len(k) - 1; i >= 0; i-- {
						if k[i] > 0 {
							k[i]--
							for j := i + 1; j < len(k); j++ {
								k[j] = 0xff
							}
							return true
						}
					}
					return false
				}})
				c6b = append(c6b, c19Mut{Class: "key-order-parent", Target: fmt.Sprintf("first key of leaf page %d made smaller than its separator in branch page %d", p.ID, p.Parent), apply: func(g *refdec.File) bool {
					k := g.Data[e.KeyOff : e.KeyOff+e.KeyLen]
					for i := range k {
						if k[i] > 0 {
							k[i]--
							for j := i + 1; j < len(k); j++ {
								k[j] = 0xff
							}
							return true
						}
					}
					return false
				}})
			}
		}
		if p.Flags == refdec.FlagBranch {
			for i := 0; i+1 < len(p.Elems); i++ {
				x, y := p.Elems[i], p.Elems[i+1]
				if x.KeyLen == y.KeyLen {
					c6c = append(c6c, c19Mut{Class: "key-order-branch", Target: fmt.Sprintf("keys %d and %d of branch page %d swapped", i, i+1, p.ID), apply: func(g *refdec.File) bool {
						return g.SwapKeys(x, y)
					}})
				}
			}
		}
	}
	add("key-order-leaf", c6a)
	add("key-order-parent", c6b)
	add("key-order-branch", c6c)
	add("key-order-duplicate", c6d)
	add("key-order-upper", c6e)
	for i := range out {
		_ = i
	}
	return out
}

// libCheck opens path and returns the number of problems Tx.Check reports (Open failure / panic counts as 1, flagged).
func libCheck(path string, ro bool) (n int, openFailed bool) {
	return libCheckWith(path, &bolt.Options{ReadOnly: ro, PreLoadFreelist: ro})
}

// c19Handles: the ways the file is opened for the library check - read-write with default options, read-only with
// a preloaded free list (as the command-line tool does), and read-only with the hash-map free list backend.
var c19Handles = []struct {
	name string
	opts bolt.Options
}{
	{"read-write, default options", bolt.Options{}},
	{"read-only, preloaded free list", bolt.Options{ReadOnly: true, PreLoadFreelist: true}},
	{"read-only, hash-map free list", bolt.Options{ReadOnly: true, PreLoadFreelist: true, FreelistType: bolt.FreelistMapType}},
}

func libCheckWith(path string, o *bolt.Options) (n int, openFailed bool) {
	defer func() {
		if r := recover(); r != nil {
			n, openFailed = 1, true
		}
	}()
	db, err := bolt.Open(path, 0600, o)
	if err != nil {
		return 1, true
	}
	defer db.Close()
	_ = db.View(func(tx *bolt.Tx) error {
		for range tx.Check() {
			n++
		}
		return nil
	})
	return n, false
}

func cliCheck(path string) (exit int, out string) {
	cli := os.Getenv("VERIF_CLI")
	if cli == "" {
		cli = verifRoot() + "/build/bbolt"
	}
	cmd := exec.Command(cli, "check", path)
	b, err := cmd.CombinedOutput()
	if err == nil {
		return 0, string(b)
	}
	if ee, ok := err.(*exec.ExitError); ok {
		return ee.ExitCode(), string(b)
	}
	return -1, err.Error()
}

type c19Doc struct {
	Class  string `json:"class"`
	Target string `json:"target"`
}

func c19Base(rt *rapid.T, fail func([]drv.Op, *drv.Violation)) (*drv.Env, *refdec.File) {
	e := drv.NewEnv("c19")
	var excluded int
	cfg := c04Cfg(&excluded)
	cfg.ErrProbes, cfg.Cursors, cfg.Probes, cfg.Readers = false, false, false, false
	cfg.CommitWeight = 20
	o := gen.Opts(rt, cfg)
	o.NoFreelistSync = false
	cfg.FixedOpts = &o
	f := func(v *drv.Violation) {
		drv.SetFailing()
		log := e.Log
		e.Cleanup()
		fail(log, v)
	}
	runHistory(rt, e, cfg, nil, f)
	finishHistory(e, f)
	if e.DB == nil {
		e.Cleanup()
		return nil, nil
	}
	_ = e.CloseDB()
	rf, err := refdec.Open(e.FileBytes(), 0)
	if err != nil {
		e.Cleanup()
		return nil, nil
	}
	return e, rf
}

// c19One applies one mutation to a copy of the base file and runs the oracle.
func c19One(e *drv.Env, base *refdec.File, mu c19Mut, withCLI bool) (*drv.Violation, map[string]int) {
	labels := map[string]int{}
	g := base.Clone()
	if !mu.apply(g) {
		return nil, nil
	}
	if bytes.Equal(g.Data, base.Data) {
		return nil, nil
	}
	ga, err := g.AnalyzeCurrent()
	if err != nil || ga.Clean() {
		// the construction did not produce what it intended: not a case
		labels["construction-not-confirmed"] = 1
		return nil, labels
	}
	p := filepath.Join(e.Dir, "mut.db")
	for _, h := range c19Handles {
		_ = os.WriteFile(p, g.Data, 0o600)
		o := h.opts
		n, openFailed := libCheckWith(p, &o)
		if openFailed {
			labels["open-failed-or-panicked"] = 1
		}
		if n == 0 {
			return drv.Violf("class %s, %s: Tx.Check (database opened %s) reports no problem; the independent decoder reports %v", mu.Class, mu.Target, h.name, ga.Anomalies), labels
		}
	}
	if withCLI {
		_ = os.WriteFile(p, g.Data, 0o600)
		if code, out := cliCheck(p); code == 0 {
			return drv.Violf("class %s, %s: `bbolt check` exits 0; output: %s", mu.Class, mu.Target, strings.TrimSpace(out)), labels
		}
		labels["cli-run"] = 1
	}
	os.Remove(p)
	return nil, labels
}

func TestC19(t *testing.T) {
	col := newCollector("C19", c19Rule)
	defer col.Flush()
	all := testingTier() == "thorough"
	f8known := isKnown("F8")
	rapid.Check(t, func(rt *rapid.T) {
		e, base := c19Base(rt, func(log []drv.Op, v *drv.Violation) {
			failCase(rt, replayDoc{Property: "C19", Kind: "history", Ops: log}, v)
		})
		if e == nil {
			return
		}
		defer e.Cleanup()
		// clean side
		if n, _ := libCheck(e.Path, true); n != 0 {
			failCase(rt, replayDoc{Property: "C19", Kind: "history", Ops: e.Log}, drv.Violf("Tx.Check reports %d problems on a file produced by committed transactions", n))
		}
		if code, out := cliCheck(e.Path); code != 0 {
			failCase(rt, replayDoc{Property: "C19", Kind: "history", Ops: e.Log}, drv.Violf("`bbolt check` exits %d on a file produced by committed transactions: %s", code, out))
		}
		col.AddKeyed("clean/"+hashOf(e.Log), false)
		per := 6
		if all {
			per = 0
		}
		muts := c19Mutations(base, per, func(n int) int { return rapid.IntRange(0, n-1).Draw(rt, "target") })
		hh := hashOf(e.Log)
		for i, mu := range muts {
			if f8known && mu.Class == "reachable-freed-overflow" {
				col.Count("excluded_by_known_finding", 1)
				continue
			}
			v, labels := c19One(e, base, mu, all || i%4 == 0)
			if v != nil {
				failCase(rt, replayDoc{Property: "C19", Kind: "corruption", Ops: e.Log, Extra: mustJSON(c19Doc{mu.Class, mu.Target})}, v)
			}
			if labels["construction-not-confirmed"] > 0 {
				col.Count("construction_not_confirmed", 1)
				continue
			}
			col.AddKeyed(fmt.Sprintf("%s/%s/%s", hh, mu.Class, mu.Target), true)
			col.Count("class_"+mu.Class, 1)
			for l, n := range labels {
				col.Count(l, n)
			}
		}
		col.Count("bases", 1)
		col.Sample(map[string]any{"base_ops": sampleOf(e.Log), "mutations": len(muts), "first": func() any {
			if len(muts) > 0 {
				return c19Doc{muts[0].Class, muts[0].Target}
			}
			return nil
		}()})
	})
}

func replayC19(t *testing.T, d replayDoc) *drv.Violation {
	e := drv.NewEnv("c19r")
	defer e.Cleanup()
	for _, op := range d.Ops {
		if v := e.Apply(op); v != nil {
			return v
		}
	}
	var out *drv.Violation
	finishHistory(e, func(v *drv.Violation) {
		if out == nil {
			out = v
		}
	})
	if out != nil || e.DB == nil {
		return out
	}
	_ = e.CloseDB()
	if d.Kind != "corruption" {
		if n, _ := libCheck(e.Path, true); n != 0 {
			return drv.Violf("Tx.Check reports %d problems on a clean file", n)
		}
		if code, o := cliCheck(e.Path); code != 0 {
			return drv.Violf("`bbolt check` exits %d on a clean file: %s", code, o)
		}
		return nil
	}
	base, err := refdec.Open(e.FileBytes(), 0)
	if err != nil {
		return drv.Violf("refdec: %v", err)
	}
	var doc c19Doc
	_ = jsonUnmarshal(d.Extra, &doc)
	// page numbers are not stable across runs with the hash-map backend: replay every target of the class
	n := 0
	for _, mu := range c19Mutations(base, 0, nil) {
		if mu.Class == doc.Class {
			n++
			if v, _ := c19One(e, base, mu, n <= 3); v != nil {
				return v
			}
		}
	}
	if n == 0 {
		return drv.Violf("replay: no target of class %q on the rebuilt base", doc.Class)
	}
	return nil
}

func init() { replayFuncs["C19"] = replayC19 }

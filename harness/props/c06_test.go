package props

import (
	"testing"

	"pgregory.net/rapid"

	bolt "go.etcd.io/bbolt"

	"go.etcd.io/bbolt/verifh/drv"
	"go.etcd.io/bbolt/verifh/gen"
)

const c06Rule = "generated histories of write transactions interleaved with readers of several ages, rollbacks, reopenings, sessions that start with a torn (interrupted) write in the older meta slot, and commits that fail (an armed I/O fault on a write/sync/truncate call, or a size limit), both backends, freelist sync on/off. EVERY pwrite the library issues is intercepted before it happens: its page range must be disjoint from the pages (tree, overflow, freelist - computed by the independent decoder at commit time) of the newest committed version and of every open reader's version, and a meta write must go to the slot that does not hold the newest committed meta. In addition the bytes of all pages of every still-visible version are re-hashed from the file after every commit, failed commit and reader close (catches modifications that bypass the write hook). After a failed commit the newest version is re-determined from the file. Non-trivial = a write was observed while a reader older than the newest version was open and the writer had taken pages from the free list. Distinct = SHA-256 of the op log."

func c06Install(e *drv.Env) *verTracker {
	vt := newVerTracker()
	var pending *drv.Violation
	oldReader := func() bool {
		for id := range e.RO {
			if e.ROTxid(id) < e.LastTxid {
				return true
			}
		}
		return false
	}
	e.OnEvent = func(e *drv.Env, ev *bolt.VerifEvent) error {
		if ev.Op != bolt.VerifWriteAt {
			return nil
		}
		if v := vt.checkWrite(e, ev); v != nil && pending == nil {
			pending = v
		}
		if oldReader() && uint64(ev.Off)/uint64(max(e.PageSize, 1)) >= 2 && uint64(ev.Off)/uint64(max(e.PageSize, 1)) < vt.hwm[e.LastTxid] {
			e.Label("write-below-hwm-with-old-reader")
		}
		return nil
	}
	take := func() *drv.Violation {
		v := pending
		pending = nil
		return v
	}
	e.AfterOpen = func(e *drv.Env) *drv.Violation {
		if v := take(); v != nil {
			return v
		}
		_, v := vt.record(e, "after open")
		return v
	}
	e.AfterCommit = func(e *drv.Env, txid int) *drv.Violation {
		if v := take(); v != nil {
			return v
		}
		// the previous newest version and every reader's version must be byte-identical to what was committed
		vers := []int{txid - 1}
		for id := range e.RO {
			vers = append(vers, e.ROTxid(id))
		}
		if v := vt.verifyBytes(e, vers, "after commit"); v != nil {
			return v
		}
		if v := e.CompareReaders("after commit"); v != nil {
			return v
		}
		_, v := vt.record(e, "after commit")
		return v
	}
	e.AfterFailure = func(e *drv.Env, err error) *drv.Violation {
		if v := take(); v != nil {
			return v
		}
		if e.Failed == nil || !e.FailedInTx {
			if !isMaxSize(err) {
				return drv.Violf("commit failed with %v without an injected fault", err)
			}
		} else if e.FailedFinalSync {
			_, a, v := decodeFile(e)
			if v != nil {
				return v
			}
			if int(a.Meta.Txid) == e.FailedTxid {
				e.AdoptFailed()
			}
		}
		e.FailAt = 0
		if v := vt.verifyBytes(e, vt.visible(e), "after failed commit"); v != nil && e.LastTxid != e.FailedTxid {
			return v
		}
		if v := e.CheckCommitted("after failed commit"); v != nil {
			return v
		}
		if v := e.CompareReaders("after failed commit"); v != nil {
			return v
		}
		_, v := vt.record(e, "after failed commit")
		return v
	}
	return vt
}

func c06After(e *drv.Env, vt *verTracker) func(op drv.Op) *drv.Violation {
	return func(op drv.Op) *drv.Violation {
		switch op.Op {
		case drv.OpCloseRO, drv.OpRollback, drv.OpProbe:
			return vt.verifyBytes(e, vt.visible(e), "after "+op.Op)
		}
		return nil
	}
}

func c06Cfg(excluded *int) gen.Cfg {
	cfg := c04Cfg(excluded)
	cfg.ErrProbes, cfg.Cursors = false, false
	cfg.MaxReaders = 5
	cfg.ReaderBoost = 2
	cfg.CommitWeight = 30
	cfg.Faults = 4
	cfg.TearMeta = 3 // an interrupted meta write of an unfinished transaction leaves a torn OLDER slot behind
	cfg.MidReaders = 15
	return cfg
}

func TestC06(t *testing.T) {
	col := newCollector("C06", c06Rule)
	defer col.Flush()
	rapid.Check(t, func(rt *rapid.T) {
		e := drv.NewEnv("c06")
		defer e.Cleanup()
		e.AllowCommitErr = true
		var excluded int
		cfg := c06Cfg(&excluded)
		fail := func(v *drv.Violation) {
			failCase(rt, replayDoc{Property: "C06", Kind: "history", Ops: e.Log}, v)
		}
		vt := c06Install(e)
		runHistory(rt, e, cfg, c06After(e, vt), fail)
		finishHistory(e, fail)
		col.Add(e.Log, e.Labels["write-below-hwm-with-old-reader"] > 0, e.Labels)
		col.Count("writes_checked", e.EventN)
	})
}

func replayC06(t *testing.T, d replayDoc) *drv.Violation {
	e := drv.NewEnv("c06r")
	defer e.Cleanup()
	e.AllowCommitErr = true
	vt := c06Install(e)
	aft := c06After(e, vt)
	for _, op := range d.Ops {
		if v := e.Apply(op); v != nil {
			return v
		}
		if v := aft(op); v != nil {
			return v
		}
	}
	var out *drv.Violation
	finishHistory(e, func(v *drv.Violation) {
		if out == nil {
			out = v
		}
	})
	return out
}

func init() { replayFuncs["C06"] = replayC06 }

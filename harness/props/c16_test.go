package props

import (
	"encoding/binary"
	"errors"
	"fmt"
	"path/filepath"
	"runtime"
	"strings"
	"sync"
	"sync/atomic"
	"testing"
	"time"

	"pgregory.net/rapid"

	bolt "go.etcd.io/bbolt"

	"go.etcd.io/bbolt/verifh/drv"
)

const c16Rule = "generated concurrent programs: 1-24 caller goroutines x 1-6 sequential DB.Batch calls each, MaxBatchSize in {0,1,2,5,1000}, MaxBatchDelay in {0,1ms,10ms}, GOMAXPROCS in {2,4,16}; each function increments its caller's counter key inside the transaction (not idempotent across committed invocations) and fails by a generated rule {never, on its first invocation, on its second and later invocations, always} x {returns an error, panics}. Oracle: a call succeeded iff Batch returned nil (a panic re-raised in the caller by the documented solo re-run counts as failed); the final counter of every caller equals the number of its succeeded calls (so: applied exactly once, and never when an error was reported); a caller whose functions never fail only ever sees nil; all callers return within the deadline; built with -race, the race detector must stay silent. Non-trivial = at least two functions shared one transaction (same tx id observed) and at least one function failed. Distinct = SHA-256 of the program."

type c16Call struct {
	Rule  string `json:"rule"`  // never first later always
	Panic bool   `json:"panic"` // fail by panicking
}

type c16Prog struct {
	Callers    [][]c16Call `json:"callers"`
	BatchSize  int         `json:"max_batch_size"`
	DelayMs    int         `json:"max_batch_delay_ms"`
	GoMaxProcs int         `json:"gomaxprocs"`
}

var errC16 = errors.New("c16: function failed on purpose")

func c16Run(p c16Prog) (v *drv.Violation, shared bool, failed bool) {
	old := runtime.GOMAXPROCS(p.GoMaxProcs)
	defer runtime.GOMAXPROCS(old)
	dir := drv.ShmDir("c16")
	defer removeAll(dir)
	db, err := bolt.Open(filepath.Join(dir, "db"), 0600, nil)
	if err != nil {
		return drv.Violf("open: %v", err), false, false
	}
	hung := false
	defer func() {
		if hung { // a leaked write lock would make Close block forever
			return
		}
		closed := make(chan struct{})
		go func() { db.Close(); close(closed) }()
		if h, why := drv.WaitOrHang(closed); h && v == nil {
			hung = true
			v = drv.Violf("Close did not return within the deadline after all Batch callers had returned (a write transaction was leaked): %s", why)
		}
	}()
	db.MaxBatchSize = p.BatchSize
	db.MaxBatchDelay = time.Duration(p.DelayMs) * time.Millisecond
	if err := db.Update(func(tx *bolt.Tx) error { _, err := tx.CreateBucket([]byte("c")); return err }); err != nil {
		return drv.Violf("setup: %v", err), false, false
	}
	type result struct {
		nilReturns int
		errs       []string
	}
	results := make([]result, len(p.Callers))
	var mu sync.Mutex
	txSeen := map[int]map[string]bool{} // tx id -> call ids invoked in it
	var wg sync.WaitGroup
	done := make(chan struct{})
	var anyFailed atomic.Bool
	for ci, calls := range p.Callers {
		wg.Add(1)
		go func(ci int, calls []c16Call) {
			defer wg.Done()
			key := []byte(fmt.Sprintf("caller-%03d", ci))
			for k, call := range calls {
				var inv atomic.Int32
				id := fmt.Sprintf("%d/%d", ci, k)
				fn := func(tx *bolt.Tx) error {
					n := inv.Add(1)
					b := tx.Bucket([]byte("c"))
					var cur uint64
					if v := b.Get(key); v != nil {
						cur = binary.BigEndian.Uint64(v)
					}
					var buf [8]byte
					binary.BigEndian.PutUint64(buf[:], cur+1)
					if err := b.Put(key, buf[:]); err != nil {
						return err
					}
					mu.Lock()
					if txSeen[tx.ID()] == nil {
						txSeen[tx.ID()] = map[string]bool{}
					}
					txSeen[tx.ID()][id] = true
					mu.Unlock()
					fail := false
					switch call.Rule {
					case "first":
						fail = n == 1
					case "later":
						fail = n >= 2
					case "always":
						fail = true
					}
					if fail {
						anyFailed.Store(true)
						if call.Panic {
							panic("c16: function panics on purpose")
						}
						return errC16
					}
					return nil
				}
				err := func() (err error) {
					defer func() {
						if r := recover(); r != nil {
							err = fmt.Errorf("panic re-raised in caller: %v", r)
						}
					}()
					return db.Batch(fn)
				}()
				if err == nil {
					results[ci].nilReturns++
				} else {
					results[ci].errs = append(results[ci].errs, fmt.Sprintf("call %d (%s): %v", k, call.Rule, err))
				}
			}
		}(ci, calls)
	}
	go func() { wg.Wait(); close(done) }()
	if h, why := drv.WaitOrHang(done); h {
		hung = true
		return drv.Violf("Batch callers did not all return within the deadline (lost wake-up or leaked lock): %s", why), false, false
	}
	// final counters
	counters := map[int]uint64{}
	err = db.View(func(tx *bolt.Tx) error {
		return tx.Bucket([]byte("c")).ForEach(func(k, v []byte) error {
			var ci int
			fmt.Sscanf(string(k), "caller-%03d", &ci)
			counters[ci] = binary.BigEndian.Uint64(v)
			return nil
		})
	})
	if err != nil {
		return drv.Violf("final read: %v", err), false, false
	}
	for ci, calls := range p.Callers {
		r := results[ci]
		if counters[ci] != uint64(r.nilReturns) {
			return drv.Violf("caller %d: Batch returned nil %d times (of %d calls) but its effects are committed %d times; errors seen: %v", ci, r.nilReturns, len(calls), counters[ci], r.errs), false, false
		}
		allNever := true
		for _, c := range calls {
			if c.Rule != "never" {
				allNever = false
			}
		}
		if allNever && len(r.errs) > 0 {
			return drv.Violf("caller %d: its functions never fail, yet Batch reported: %v", ci, r.errs), false, false
		}
		for k, c := range calls {
			_ = k
			_ = c
		}
	}
	// per-call expectations that do not depend on the schedule
	for ci, calls := range p.Callers {
		wantNil := 0
		certain := true
		for _, c := range calls {
			switch c.Rule {
			case "never", "first":
				wantNil++ // "first": the solo re-run (second invocation) succeeds
			case "always":
			case "later":
				certain = false // succeeds iff its first invocation's transaction commits
			}
		}
		if certain && results[ci].nilReturns != wantNil {
			return drv.Violf("caller %d: %d of its calls must succeed whatever the schedule, Batch returned nil %d times; errors: %v", ci, wantNil, results[ci].nilReturns, results[ci].errs), false, false
		}
	}
	for _, ids := range txSeen {
		if len(ids) >= 2 {
			shared = true
		}
	}
	return nil, shared, anyFailed.Load()
}

func TestC16(t *testing.T) {
	col := newCollector("C16", c16Rule)
	defer col.Flush()
	rapid.Check(t, func(rt *rapid.T) {
		p := c16Prog{
			BatchSize:  rapid.SampledFrom([]int{0, 1, 2, 5, 1000, 1000}).Draw(rt, "batchsize"),
			DelayMs:    rapid.SampledFrom([]int{0, 1, 1, 10}).Draw(rt, "delay"),
			GoMaxProcs: rapid.SampledFrom([]int{2, 4, 16}).Draw(rt, "gomaxprocs"),
		}
		nc := rapid.IntRange(1, 24).Draw(rt, "callers")
		for i := 0; i < nc; i++ {
			var calls []c16Call
			for k, n := 0, rapid.IntRange(1, 6).Draw(rt, "calls"); k < n; k++ {
				calls = append(calls, c16Call{Rule: rapid.SampledFrom([]string{"never", "never", "never", "first", "later", "always"}).Draw(rt, "rule"), Panic: rapid.IntRange(0, 3).Draw(rt, "panic") == 0})
			}
			p.Callers = append(p.Callers, calls)
		}
		v, shared, failed := c16Run(p)
		if v != nil {
			if strings.Contains(v.Msg, "within") {
				failNoShrink(replayDoc{Property: "C16", Kind: "batch-program", Extra: mustJSON(p)}, v)
			}
			failCase(rt, replayDoc{Property: "C16", Kind: "batch-program", Extra: mustJSON(p)}, v)
		}
		labels := map[string]int{fmt.Sprintf("batchsize-%d", p.BatchSize): 1, fmt.Sprintf("delay-%dms", p.DelayMs): 1}
		if shared {
			labels["shared-transaction"] = 1
		}
		if failed {
			labels["some-function-failed"] = 1
		}
		col.Add(p, shared && failed, labels)
	})
}

func replayC16(t *testing.T, d replayDoc) *drv.Violation {
	var p c16Prog
	_ = jsonUnmarshal(d.Extra, &p)
	for i := 0; i < 30; i++ {
		if v, _, _ := c16Run(p); v != nil {
			return v
		}
	}
	return nil
}

func init() { replayFuncs["C16"] = replayC16 }

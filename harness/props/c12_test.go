package props

import (
	"fmt"
	"os"
	"path/filepath"
	"sort"
	"strings"
	"testing"

	"pgregory.net/rapid"

	bolt "go.etcd.io/bbolt"

	"go.etcd.io/bbolt/verifh/drv"
	"go.etcd.io/bbolt/verifh/gen"
	"go.etcd.io/bbolt/verifh/model"
	"go.etcd.io/bbolt/verifh/refdec"
)

const c12Rule = "files written by generated histories under every option combination and page size are decoded after EVERY commit by the independent version-2 reader (encoding/binary only) and must give the same content as the API dump and the model, with a clean v2 structure; plus a golden corpus written by the pinned build (decoded independently AND opened, read, checked and written with the current tree) and a generated file whose free list exceeds 65534 entries (0xFFFF count convention). Non-trivial = the decoded file shows >=3 of {branch page, overflow page, inline bucket, non-empty persisted freelist, nested bucket with non-zero sequence}. Distinct = SHA-256 of the op log / golden file name."

func TestC12(t *testing.T) {
	col := newCollector("C12", c12Rule)
	defer col.Flush()
	rapid.Check(t, func(rt *rapid.T) {
		e := drv.NewEnv("c12")
		defer e.Cleanup()
		var excluded int
		cfg := c04Cfg(&excluded)
		cfg.ErrProbes = false
		cfg.Cursors = false
		cfg.Probes = false
		fail := func(v *drv.Violation) {
			failCase(rt, replayDoc{Property: "C12", Kind: "history", Ops: e.Log}, v)
		}
		c12Install(e)
		if rapid.IntRange(0, 3).Draw(rt, "withfaults") == 0 {
			cfg.Faults = 3 // the file left behind by a failed commit is a file this code wrote, too
		}
		runHistory(rt, e, cfg, nil, fail)
		finishHistory(e, fail)
		col.Add(e.Log, e.Labels["features>=3"] > 0, e.Labels)
		col.Count("files_decoded", e.Labels["commit"]+e.Labels["open"])
	})
}

func c12Install(e *drv.Env) {
	e.AllowCommitErr = true
	e.AfterFailure = failureOracle
	oracle := func(e *drv.Env, when string) *drv.Violation {
		a, v := checkAccounting(e, when)
		if v != nil {
			return v
		}
		structLabels(e, a)
		n := 0
		for _, c := range []bool{a.Branches > 0, a.Overflows > 0, a.InlineBuckets > 0, a.HasFreelist && len(a.FreeIDs) > 0, a.BucketsWithSeq > 0} {
			if c {
				n++
			}
		}
		if n >= 3 {
			e.Label("features>=3")
		}
		// a hot backup is a file this code writes, too: decode it independently (every 3rd commit/open)
		if e.DB != nil && (e.Labels["commit"]+e.Labels["open"])%3 == 0 {
			var w hookWriter
			var size int64
			var rid int
			err := e.DB.View(func(tx *bolt.Tx) error {
				size, rid = tx.Size(), tx.ID()
				_, err := tx.WriteTo(&w)
				return err
			})
			if err != nil {
				return drv.Violf("%s: WriteTo: %v", when, err)
			}
			if v := c14CheckCopy(w.buf, int64(len(w.buf)), size, rid, e.Committed, when+": backup written by WriteTo"); v != nil {
				return v
			}
			e.Label("backup-decoded")
		}
		return nil
	}
	e.AfterCommit = func(e *drv.Env, txid int) *drv.Violation { return oracle(e, "after commit") }
	e.AfterOpen = func(e *drv.Env) *drv.Violation { return oracle(e, "after open") }
}

func replayHistoryC12(t *testing.T, d replayDoc) *drv.Violation {
	if d.Kind == "golden" {
		return c12GoldenOne(string(d.Extra[1:len(d.Extra)-1]), nil)
	}
	e := drv.NewEnv("c12r")
	defer e.Cleanup()
	c12Install(e)
	for _, op := range d.Ops {
		if v := e.Apply(op); v != nil {
			return v
		}
	}
	var out *drv.Violation
	finishHistory(e, func(v *drv.Violation) {
		if out == nil {
			out = v
		}
	})
	return out
}

func init() { replayFuncs["C12"] = replayHistoryC12 }

// ---------------------------------------------------------------------------------------------
// golden corpus

var goldenDir = verifRoot() + "/golden"

func canonicalText(b *model.Bucket) string { return strings.Join(model.Canonical(b), "\n") + "\n" }

// TestGenGolden writes the corpus; run once against the pinned build:
//
//	VERIF_GOLDEN_OUT=/verif/golden go test -tags verif -run TestGenGolden -rapid.seed=7 -rapid.checks=24
func TestGenGolden(t *testing.T) {
	out := os.Getenv("VERIF_GOLDEN_OUT")
	if out == "" {
		t.Skip("VERIF_GOLDEN_OUT not set")
	}
	_ = os.MkdirAll(out, 0o755)
	n := 0
	combos := []drv.OpenOpts{}
	for _, ps := range []int{1024, 4096, 16384} {
		for _, fl := range []string{"array", "hashmap"} {
			for _, nfs := range []bool{false, true} {
				combos = append(combos, drv.OpenOpts{PageSize: ps, Freelist: fl, NoFreelistSync: nfs})
			}
		}
	}
	rapid.Check(t, func(rt *rapid.T) {
		e := drv.NewEnv("golden")
		defer e.Cleanup()
		cfg := gen.DefaultCfg()
		cfg.ErrProbes, cfg.Cursors, cfg.Probes, cfg.Readers = false, false, false, false
		cfg.NoMoveIntoSelf = true
		o := combos[n%len(combos)]
		cfg.FixedOpts = &o
		// content is whatever the pinned build reports (the model is not trusted here)
		rt.Repeat(map[string]func(*rapid.T){"op": func(rt *rapid.T) {
			op := gen.Next(rt, e, cfg)
			if op.Op == drv.OpMove || op.Op == drv.OpDeleteBkt {
				return // F1/F5 of the pinned build would make content and accounting depend on defects
			}
			if v := e.Apply(op); v != nil {
				rt.Fatalf("golden generation: %s", v.Msg)
			}
		}})
		finishHistory(e, func(v *drv.Violation) { rt.Fatalf("golden generation: %s", v.Msg) })
		if e.DB == nil {
			return
		}
		var content *model.Bucket
		_ = e.DB.View(func(tx *bolt.Tx) error {
			c, v := drv.DumpTx(tx)
			if v != nil {
				rt.Fatalf("dump: %s", v.Msg)
			}
			content = c
			return nil
		})
		_ = e.CloseDB()
		data := e.FileBytes()
		if len(data) > 256<<10 || len(data) < 4096 {
			return
		}
		keys, buckets := content.CountAll()
		if keys+buckets < 3 {
			return
		}
		name := fmt.Sprintf("g%02d-ps%d-%s-%v", n, o.PageSize, o.Freelist, map[bool]string{false: "sync", true: "nosync"}[o.NoFreelistSync])
		_ = os.WriteFile(filepath.Join(out, name+".db"), data, 0o644)
		_ = os.WriteFile(filepath.Join(out, name+".txt"), []byte(canonicalText(content)), 0o644)
		n++
	})
	t.Logf("wrote %d golden files", n)
}

func goldenFiles() []string {
	m, _ := filepath.Glob(filepath.Join(goldenDir, "*.db"))
	sort.Strings(m)
	return m
}

// c12GoldenOne checks one golden file: independent decode, open with the current tree, dump, check, write.
func c12GoldenOne(dbfile string, col *collector) *drv.Violation {
	data, err := os.ReadFile(dbfile)
	if err != nil {
		return drv.Violf("golden %s: %v", dbfile, err)
	}
	want, err := os.ReadFile(strings.TrimSuffix(dbfile, ".db") + ".txt")
	if err != nil {
		return drv.Violf("golden %s: %v", dbfile, err)
	}
	f, err := refdec.Open(data, 0)
	if err != nil {
		return drv.Violf("golden %s: independent decoder: %v", dbfile, err)
	}
	a, err := f.AnalyzeCurrent()
	if err != nil {
		return drv.Violf("golden %s: independent decoder: %v", dbfile, err)
	}
	if !a.Clean() {
		return drv.Violf("golden %s: independent decoder anomalies: %v", dbfile, a.Anomalies)
	}
	if got := canonicalText(a.Tree); got != string(want) {
		return drv.Violf("golden %s: independently decoded content differs from the stored digest", dbfile)
	}
	nontrivial := a.Branches > 0 || a.Overflows > 0 || a.InlineBuckets > 0
	for i, o := range []drv.OpenOpts{{Freelist: "array"}, {Freelist: "hashmap", NoFreelistSync: true}, {ReadOnly: true}, {ReadOnly: true, PreLoadFreelist: true}} {
		e := drv.NewEnv("c12g")
		if err := os.WriteFile(e.Path, data, 0o644); err != nil {
			e.Cleanup()
			return drv.Violf("copy: %v", err)
		}
		v := func() *drv.Violation {
			if err := e.Open(o); err != nil {
				return drv.Violf("golden %s: Open(%+v) with the current tree: %v", dbfile, o, err)
			}
			var got *model.Bucket
			var dv *drv.Violation
			_ = e.DB.View(func(tx *bolt.Tx) error {
				got, dv = drv.DumpTx(tx)
				return nil
			})
			if dv != nil {
				return drv.Violf("golden %s: %s", dbfile, dv.Msg)
			}
			if canonicalText(got) != string(want) {
				return drv.Violf("golden %s (opts #%d): content read through the API differs from the stored digest: %s", dbfile, i, model.Diff(got, a.Tree))
			}
			if errs := e.TxCheck(); len(errs) > 0 {
				return drv.Violf("golden %s: Tx.Check: %v", dbfile, errs)
			}
			if o.ReadOnly {
				return nil
			}
			e.Committed = got
			e.Versions[e.LastTxid] = got
			k, val := drv.Lit("golden-write"), drv.B{S: "w", N: 300}
			kb := drv.Lit("zz-golden")
			for _, op := range []drv.Op{{Op: drv.OpBeginRW}, {Op: drv.OpCreateINE, Key: &kb}, {Op: drv.OpPut, Path: []drv.B{kb}, Key: &k, Val: &val}, {Op: drv.OpCommit}, {Op: drv.OpReopen, Opts: &drv.OpenOpts{Freelist: o.Freelist}}} {
				if v := e.Apply(op); v != nil {
					return drv.Violf("golden %s: write on top of the golden file: %s", dbfile, v.Msg)
				}
			}
			if _, v := checkAccounting(e, "golden after write"); v != nil {
				return drv.Violf("golden %s: %s", dbfile, v.Msg)
			}
			return nil
		}()
		e.Cleanup()
		if v != nil {
			return v
		}
	}
	if col != nil {
		col.AddKeyed("golden:"+filepath.Base(dbfile), nontrivial)
	}
	return nil
}

func TestC12Golden(t *testing.T) {
	col := newCollector("C12", c12Rule)
	defer col.Flush()
	files := goldenFiles()
	if len(files) == 0 {
		t.Fatalf("no golden files in %s", goldenDir)
	}
	for _, g := range files {
		if v := c12GoldenOne(g, col); v != nil {
			failCase(t, replayDoc{Property: "C12", Kind: "golden", Extra: mustJSON(g)}, v)
		}
	}
	col.Sample(map[string]any{"golden_files": len(files), "first": filepath.Base(files[0])})
}

// TestC12BigFreelist produces a free list with more than 65534 entries and decodes it independently.
func TestC12BigFreelist(t *testing.T) {
	col := newCollector("C12", c12Rule)
	defer col.Flush()
	for _, fl := range []string{"array", "hashmap"} {
		e := drv.NewEnv("c12big")
		e.SkipDumpAfter = true
		kb := drv.Lit("big")
		pre := drv.Lit("k")
		val := drv.B{S: "v", N: 900}
		ops := []drv.Op{{Op: drv.OpOpen, Opts: &drv.OpenOpts{PageSize: 1024, Freelist: fl}}, {Op: drv.OpBeginRW}, {Op: drv.OpCreate, Key: &kb}}
		for i := 0; i < 70000; i += 10000 {
			ops = append(ops, drv.Op{Op: drv.OpBulkPut, Path: []drv.B{kb}, Key: &pre, From: i, To: i + 10000, Val: &val})
		}
		ops = append(ops, drv.Op{Op: drv.OpCommit}, drv.Op{Op: drv.OpBeginRW}, drv.Op{Op: drv.OpDeleteBkt, Key: &kb}, drv.Op{Op: drv.OpCommit},
			drv.Op{Op: drv.OpBeginRW}, drv.Op{Op: drv.OpCreate, Key: &kb}, drv.Op{Op: drv.OpCommit})
		var viol *drv.Violation
		for _, op := range ops {
			if v := e.Apply(op); v != nil {
				viol = v
				break
			}
		}
		nfree := 0
		if viol == nil {
			a, v := checkAccounting(e, "big freelist")
			viol = v
			if a != nil {
				nfree = len(a.FreeIDs)
				if v == nil && nfree <= 65534 {
					viol = drv.Violf("harness: only %d free ids, wanted > 65534", nfree)
				}
			}
		}
		if viol == nil {
			o := drv.OpenOpts{Freelist: map[string]string{"array": "hashmap", "hashmap": "array"}[fl]}
			if v := e.Apply(drv.Op{Op: drv.OpReopen, Opts: &o}); v != nil {
				viol = v
			} else if _, v := checkAccounting(e, "big freelist after reopen with the other backend"); v != nil {
				viol = v
			}
		}
		drv.SetFailing()
		log := e.Log
		e.Cleanup()
		if viol != nil {
			failCase(t, replayDoc{Property: "C12", Kind: "history", Ops: log}, viol)
		}
		col.AddKeyed("bigfreelist:"+fl, true)
		col.Count("big_freelist_entries", nfree)
	}
}

package props

import (
	"context"
	"crypto/sha256"
	"fmt"
	"os"
	"os/exec"
	"path/filepath"
	"sort"
	"strings"
	"testing"
	"time"

	"pgregory.net/rapid"

	"go.etcd.io/bbolt/verifh/drv"
	"go.etcd.io/bbolt/verifh/gen"
	"go.etcd.io/bbolt/verifh/model"
	"go.etcd.io/bbolt/verifh/refdec"
)

const c20Rule = "files from generated histories (all page sizes, freelist persisted or not), snapshotted byte for byte DIRECTLY AFTER a generated commit N+1 (while the database is still open, so no later commit intervenes) or directly after an Open (whose last write activity is the previous session's last commit, or the freelist-flush commit of Open itself), then processed by the CLI built from the tree: `surgery freelist abandon`, abandon followed by `surgery freelist rebuild`, and `surgery revert-meta-page`. Oracle: abandon: output dumps like the source, neither meta carries a freelist pointer, and after opening it the scanned free set equals the independent decoder's unreachable set; rebuild: dump unchanged, the persisted list equals the unreachable pages minus the freelist page itself (decoder accounting clean); revert: the output opens at exactly the state committed before N+1 (incl. the initial empty state), Tx.Check is clean and the decoder's accounting of that version is clean. Always: exit status 0, SHA-256 of the source unchanged, no file other than --output created or changed in the directory. Non-trivial = versions N and N+1 differ in content and the free list is not empty. Distinct = SHA-256 of (op log, snapshot txid, command)."

func runCLI(args ...string) (int, string) {
	cli := os.Getenv("VERIF_CLI")
	if cli == "" {
		cli = verifRoot() + "/build/bbolt"
	}
	// the tool needs milliseconds; a run that is still going after 3 minutes is blocked (e.g. waiting for a file lock)
	ctx, cancel := context.WithTimeout(context.Background(), 180*time.Second)
	defer cancel()
	b, err := exec.CommandContext(ctx, cli, args...).CombinedOutput()
	if err == nil {
		return 0, string(b)
	}
	if ctx.Err() != nil {
		return -2, "did not finish within 3 minutes (blocked) " + string(b)
	}
	if ee, ok := err.(*exec.ExitError); ok {
		return ee.ExitCode(), string(b)
	}
	return -1, err.Error() + string(b)
}

func dirState(dir string) map[string]string {
	out := map[string]string{}
	ents, _ := os.ReadDir(dir)
	for _, en := range ents {
		b, err := os.ReadFile(filepath.Join(dir, en.Name()))
		if err == nil {
			out[en.Name()] = fmt.Sprintf("%x", sha256.Sum256(b))
		}
	}
	return out
}

func dirDiff(before, after map[string]string, allowed ...string) string {
	ok := map[string]bool{}
	for _, a := range allowed {
		ok[a] = true
	}
	var diffs []string
	for n, h := range after {
		if ok[n] {
			continue
		}
		if bh, had := before[n]; !had {
			diffs = append(diffs, "created "+n)
		} else if bh != h {
			diffs = append(diffs, "changed "+n)
		}
	}
	for n := range before {
		if _, still := after[n]; !still {
			diffs = append(diffs, "removed "+n)
		}
	}
	sort.Strings(diffs)
	return strings.Join(diffs, ", ")
}

// openAndCompare opens path (NoFreelistSync as given) and checks dump + accounting against want.
func openAndCompare(path string, want *model.Bucket, nosync bool, what string) *drv.Violation {
	e := drv.NewEnv("c20o")
	defer e.Cleanup()
	data, err := os.ReadFile(path)
	if err != nil {
		return drv.Violf("%s: %v", what, err)
	}
	_ = os.WriteFile(e.Path, data, 0o600)
	e.Committed = want
	if err := e.Open(drv.OpenOpts{NoFreelistSync: nosync}); err != nil {
		return drv.Violf("%s: output does not open: %v", what, err)
	}
	if v := e.CheckCommitted(what); v != nil {
		return v
	}
	_, v := checkAccounting(e, what)
	return v
}

type c20Snap struct {
	data   []byte
	txid   int
	cur    *model.Bucket
	prev   *model.Bucket
	nosync bool
}

// c20Commands runs the three command sequences on a snapshot.
func c20Commands(s c20Snap, col *collector, key string) *drv.Violation {
	dir := drv.ShmDir("c20")
	defer os.RemoveAll(dir)
	src := filepath.Join(dir, "src.db")
	_ = os.WriteFile(src, s.data, 0o600)
	rf, err := refdec.Open(s.data, 0)
	if err != nil {
		return drv.Violf("snapshot: %v", err)
	}
	a0 := rf.Analyze(rf.Current())
	nontrivial := model.Diff(s.cur, s.prev) != "" && len(a0.Unreachable(true)) > 0
	run := func(cmd string, out string, args ...string) *drv.Violation {
		before := dirState(dir)
		code, o := runCLI(args...)
		if code != 0 {
			return drv.Violf("`bbolt %s` exits %d: %s", strings.Join(args, " "), code, strings.TrimSpace(o))
		}
		if d := dirDiff(before, dirState(dir), out); d != "" {
			return drv.Violf("`bbolt %s` touched files other than its output: %s", cmd, d)
		}
		if col != nil {
			col.AddKeyed(key+"/"+cmd, nontrivial)
		}
		return nil
	}
	// abandon
	ab := filepath.Join(dir, "abandon.db")
	if v := run("surgery freelist abandon", "abandon.db", "surgery", "freelist", "abandon", src, "--output", ab); v != nil {
		return v
	}
	abData, _ := os.ReadFile(ab)
	af, err := refdec.Open(abData, 0)
	if err != nil {
		return drv.Violf("abandon output: %v", err)
	}
	for i := 0; i < 2; i++ {
		if !af.Metas[i].Valid || af.Metas[i].Freelist != refdec.NoFreelist {
			return drv.Violf("abandon output: meta %d valid=%v (%s) freelist pointer %#x, want valid with no freelist", i, af.Metas[i].Valid, af.Metas[i].Why, af.Metas[i].Freelist)
		}
	}
	if v := openAndCompare(ab, s.cur, true, "abandon output"); v != nil {
		return v
	}
	// rebuild on top of the abandoned file
	rb := filepath.Join(dir, "rebuild.db")
	if v := run("surgery freelist rebuild", "rebuild.db", "surgery", "freelist", "rebuild", ab, "--output", rb); v != nil {
		return v
	}
	rbData, _ := os.ReadFile(rb)
	rbf, err := refdec.Open(rbData, 0)
	if err != nil {
		return drv.Violf("rebuild output: %v", err)
	}
	ra := rbf.Analyze(rbf.Current())
	if !ra.HasFreelist {
		return drv.Violf("rebuild output has no persisted freelist")
	}
	if !ra.Clean() {
		return drv.Violf("rebuild output: persisted free list is not exactly the unreachable pages minus the freelist page: %v", ra.Anomalies)
	}
	if d := model.Diff(ra.Tree, s.cur); d != "" {
		return drv.Violf("rebuild output: content changed: %s", d)
	}
	if v := openAndCompare(rb, s.cur, false, "rebuild output"); v != nil {
		return v
	}
	// revert-meta-page
	rv := filepath.Join(dir, "revert.db")
	if v := run("surgery revert-meta-page", "revert.db", "surgery", "revert-meta-page", src, "--output", rv); v != nil {
		return v
	}
	rvData, _ := os.ReadFile(rv)
	rvf, err := refdec.Open(rvData, 0)
	if err != nil {
		return drv.Violf("revert output: %v", err)
	}
	va := rvf.Analyze(rvf.Current())
	if !va.Clean() {
		return drv.Violf("revert output: page accounting of the reverted version: %v", va.Anomalies)
	}
	if d := model.Diff(va.Tree, s.prev); d != "" {
		return drv.Violf("revert output does not hold the previously committed state (file vs model): %s", d)
	}
	if v := openAndCompare(rv, s.prev, s.nosync, "revert output"); v != nil {
		return v
	}
	// the source is byte-identical
	after, _ := os.ReadFile(src)
	if sha256.Sum256(after) != sha256.Sum256(s.data) {
		return drv.Violf("the source file was modified")
	}
	// --output naming the source itself (literally, and through an equivalent spelling of the path): whatever the
	// command answers, the source must stay byte-identical and nothing else in the directory may change
	// (one command and one spelling per snapshot, chosen by its content: each CLI run costs a process start)
	pick := int(sha256.Sum256(s.data)[0])
	cmds3 := [][]string{{"surgery", "revert-meta-page"}, {"surgery", "freelist", "abandon"}, {"surgery", "freelist", "rebuild"}}
	spellings := []string{src, filepath.Join(dir, ".") + string(filepath.Separator) + "." + string(filepath.Separator) + "src.db"}
	for _, c := range cmds3[pick%3 : pick%3+1] {
		for _, outp := range spellings[(pick/3)%2 : (pick/3)%2+1] {
			before := dirState(dir)
			args := append(append([]string{}, c...), src, "--output", outp)
			code, o := runCLI(args...)
			if code < 0 {
				return drv.Violf("`bbolt %s` crashed or blocked: %s", strings.Join(args, " "), strings.TrimSpace(o))
			}
			now, err := os.ReadFile(src)
			if err != nil {
				return drv.Violf("`bbolt %s --output <the source itself>` (exit %d): the source file is gone: %v", strings.Join(c, " "), code, err)
			}
			if code != 0 && sha256.Sum256(now) != sha256.Sum256(s.data) {
				return drv.Violf("`bbolt %s --output <the source itself>` failed (exit %d) and yet modified the source file", strings.Join(c, " "), code)
			}
			if code == 0 {
				// accepted: then the file is the command's output and must hold what the command promises; restore it
				_ = os.WriteFile(src, s.data, 0o600)
			}
			if d := dirDiff(before, dirState(dir), "src.db"); d != "" {
				return drv.Violf("`bbolt %s --output <the source itself>` touched other files: %s", strings.Join(c, " "), d)
			}
			if col != nil {
				col.Count("output_names_source_runs", 1)
			}
		}
	}
	return nil
}

type c20Doc struct {
	SnapAtCommit int `json:"snap_at_commit"`
}

func c20RunLog(log []drv.Op, snapAt int, col *collector) *drv.Violation {
	e := drv.NewEnv("c20r")
	defer e.Cleanup()
	e.SkipDumpAfter = true
	n := 0
	var snap *c20Snap
	e.AfterOpen = func(e *drv.Env) *drv.Violation {
		if snapAt < 0 && len(e.Log) == -snapAt && e.LastTxid >= 2 {
			prev := e.Versions[e.LastTxid-1]
			if prev == nil {
				prev = model.New()
			}
			snap = &c20Snap{data: e.FileBytes(), txid: e.LastTxid, cur: e.Committed, prev: prev, nosync: e.Opts.NoFreelistSync}
		}
		return nil
	}
	e.AfterCommit = func(e *drv.Env, txid int) *drv.Violation {
		n++
		if n == snapAt {
			prev := e.Versions[txid-1]
			if prev == nil {
				prev = model.New()
			}
			snap = &c20Snap{data: e.FileBytes(), txid: txid, cur: e.Committed, prev: prev, nosync: e.Opts.NoFreelistSync}
		}
		return nil
	}
	for _, op := range log {
		if v := e.Apply(op); v != nil {
			return v
		}
		if snap != nil {
			break
		}
	}
	if snap == nil {
		return nil
	}
	return c20Commands(*snap, col, hashOf(log)+fmt.Sprint(snapAt))
}

func TestC20(t *testing.T) {
	col := newCollector("C20", c20Rule)
	defer col.Flush()
	rapid.Check(t, func(rt *rapid.T) {
		g := drv.NewEnv("c20g")
		g.SkipDumpAfter = true
		var excluded int
		cfg := c04Cfg(&excluded)
		cfg.ErrProbes, cfg.Cursors, cfg.Probes, cfg.Readers = false, false, false, false
		cfg.CommitWeight = 25
		commits := 0
		var snaps []c20Snap
		var snapIdx []int
		g.AfterCommit = func(e *drv.Env, txid int) *drv.Violation {
			commits++
			prev := e.Versions[txid-1]
			if prev == nil {
				prev = model.New()
			}
			if len(snaps) < 2 && rapid.IntRange(0, 2).Draw(rt, "snap") == 0 {
				snaps = append(snaps, c20Snap{data: e.FileBytes(), txid: txid, cur: e.Committed, prev: prev, nosync: e.Opts.NoFreelistSync})
				snapIdx = append(snapIdx, commits)
			}
			return nil
		}
		// the file as it is directly after an Open is also "directly after a commit" (the last commit of the
		// previous session, or the freelist-flush commit Open performs when a no-sync file is opened in sync mode)
		g.AfterOpen = func(e *drv.Env) *drv.Violation {
			if e.LastTxid < 2 || len(snaps) >= 3 || rapid.IntRange(0, 1).Draw(rt, "snapopen") != 0 {
				return nil
			}
			prev := e.Versions[e.LastTxid-1]
			if prev == nil {
				prev = model.New()
			}
			snaps = append(snaps, c20Snap{data: e.FileBytes(), txid: e.LastTxid, cur: e.Committed, prev: prev, nosync: e.Opts.NoFreelistSync})
			snapIdx = append(snapIdx, -len(e.Log))
			return nil
		}
		cfg.ReopenWeight = 14
		failg := func(v *drv.Violation) {
			drv.SetFailing()
			log := g.Log
			g.Cleanup()
			failCase(rt, replayDoc{Property: "C20", Kind: "history", Ops: log}, v)
		}
		runHistory(rt, g, cfg, nil, failg)
		log := append([]drv.Op(nil), g.Log...)
		g.Cleanup()
		hh := hashOf(log)
		for i, s := range snaps {
			if v := c20Commands(s, col, fmt.Sprintf("%s/%d", hh, snapIdx[i])); v != nil {
				failCase(rt, replayDoc{Property: "C20", Kind: "surgery", Ops: log, Extra: mustJSON(c20Doc{snapIdx[i]})}, v)
			}
		}
		col.Count("snapshots", len(snaps))
		if len(snaps) > 0 {
			col.Sample(map[string]any{"ops": sampleOf(log), "snapshot_after_commit": snapIdx})
		}
	})
}

func replayC20(t *testing.T, d replayDoc) *drv.Violation {
	var doc c20Doc
	_ = jsonUnmarshal(d.Extra, &doc)
	if doc.SnapAtCommit == 0 {
		doc.SnapAtCommit = 1
	}
	return c20RunLog(d.Ops, doc.SnapAtCommit, nil)
}

func init() { replayFuncs["C20"] = replayC20 }

var _ = gen.DefaultCfg

package props

import (
	"fmt"
	"testing"

	"go.etcd.io/bbolt/verifh/drv"
)

// replayFuncs maps property id -> function that re-executes a replay document
// and returns the violation it still produces (nil if none).
var replayFuncs = map[string]func(t *testing.T, d replayDoc) *drv.Violation{}

func init() {
	replayFuncs["C04"] = replayHistoryC04
}

// TestReplay re-executes the document named by VERIF_REPLAY. It prints
// REPLAY-VIOLATION / REPLAY-OK and fails iff the violation is still produced.
func TestReplay(t *testing.T) {
	d, ok := loadReplay(t)
	if !ok {
		return
	}
	f := replayFuncs[d.Property]
	if d.Kind == "boundary-history" {
		f = replayHistoryC07 // the directed freelist-boundary walk is shared by several properties
	}
	if f == nil {
		t.Fatalf("no replay function for property %q", d.Property)
	}
	if v := f(t, d); v != nil {
		fmt.Printf("REPLAY-VIOLATION property=%s\n%s\n", d.Property, v.Msg)
		t.Fail()
		return
	}
	fmt.Printf("REPLAY-OK property=%s\n", d.Property)
}

package props

import (
	"crypto/sha256"
	"encoding/hex"
	"encoding/json"
	"fmt"
	"os"
	"path/filepath"
	"sort"
	"strconv"
	"sync"
	"testing"

	"pgregory.net/rapid"

	"go.etcd.io/bbolt/verifh/drv"
	"go.etcd.io/bbolt/verifh/gen"
)

// ---------------------------------------------------------------------------------------------
// statistics collector: what each shard really generated (merged into evidence by bin/check)

type collector struct {
	mu       sync.Mutex
	Prop     string         `json:"property"`
	Cases    int            `json:"cases"`
	NT       map[string]int `json:"nontrivial_hashes"`
	Labels   map[string]int `json:"labels"`
	Counters map[string]int `json:"counters"`
	Samples  []any          `json:"samples"`
	Rule     string         `json:"rule"`
}

func newCollector(prop, rule string) *collector {
	return &collector{Prop: prop, Rule: rule, NT: map[string]int{}, Labels: map[string]int{}, Counters: map[string]int{}}
}

func hashOf(doc any) string {
	j, _ := json.Marshal(doc)
	h := sha256.Sum256(j)
	return hex.EncodeToString(h[:12])
}

// Add records one executed case.
func (c *collector) Add(doc any, nontrivial bool, labels map[string]int) {
	c.mu.Lock()
	defer c.mu.Unlock()
	c.Cases++
	if nontrivial {
		c.NT[hashOf(doc)]++
		if len(c.Samples) < 3 {
			c.Samples = append(c.Samples, sampleOf(doc))
		}
	}
	for l, n := range labels {
		if n > 0 {
			c.Labels[l]++
		}
	}
}

// AddMany records n sub-cases (e.g. fault positions of one base case), nt of them non-trivial and distinct by key.
func (c *collector) AddKeyed(key string, nontrivial bool) {
	c.mu.Lock()
	defer c.mu.Unlock()
	c.Cases++
	if nontrivial {
		c.NT[key]++
	}
}

func (c *collector) Count(name string, n int) {
	c.mu.Lock()
	c.Counters[name] += n
	c.mu.Unlock()
}

func (c *collector) Sample(doc any) {
	c.mu.Lock()
	if len(c.Samples) < 3 {
		c.Samples = append(c.Samples, sampleOf(doc))
	}
	c.mu.Unlock()
}

// sampleOf trims long op logs so that evidence files stay small.
func sampleOf(doc any) any {
	j, _ := json.Marshal(doc)
	if len(j) > 6000 {
		if ops, ok := doc.([]drv.Op); ok && len(ops) > 40 {
			return map[string]any{"first_ops": ops[:40], "total_ops": len(ops)}
		}
		return map[string]any{"truncated_json": string(j[:6000])}
	}
	return doc
}

func (c *collector) Flush() {
	p := os.Getenv("VERIF_STATS")
	if p == "" {
		return
	}
	c.mu.Lock()
	defer c.mu.Unlock()
	j, _ := json.Marshal(c)
	_ = os.WriteFile(p, j, 0o644)
}

// ---------------------------------------------------------------------------------------------
// replay documents

type replayDoc struct {
	Property  string          `json:"property"`
	Kind      string          `json:"kind"`
	Violation string          `json:"violation,omitempty"`
	Cfg       json.RawMessage `json:"cfg,omitempty"`
	Ops       []drv.Op        `json:"ops,omitempty"`
	Extra     json.RawMessage `json:"extra,omitempty"`
}

func replayDir() string {
	d := os.Getenv("VERIF_REPLAY_DIR")
	if d == "" {
		d = verifRoot() + "/replays/adhoc"
	}
	return d
}

func shardTag() string {
	s := os.Getenv("VERIF_SHARD")
	if s == "" {
		s = strconv.Itoa(os.Getpid())
	}
	return s
}

// writeReplay stores doc; the last failing (i.e. minimal) run of a shrink wins.
func writeReplay(doc replayDoc) string {
	return drv.WriteReplay(replayDir(), fmt.Sprintf("%s-%s.json", doc.Property, shardTag()), doc)
}

type fataler interface {
	Fatalf(format string, args ...any)
}

// failCase records the replay and fails the (rapid or plain) test.
func failCase(t fataler, doc replayDoc, v *drv.Violation) {
	doc.Violation = v.Msg
	p := writeReplay(doc)
	drv.SetFailing()
	t.Fatalf("VIOLATION-FOUND property=%s replay=%s\n%s", doc.Property, p, v.Msg)
}

func init() {
	drv.HangReport = func(log []drv.Op) {
		doc := replayDoc{Property: os.Getenv("VERIF_PROP"), Kind: "history", Ops: log, Violation: "a call did not return within the deadline (hang)"}
		p := writeReplay(doc)
		fmt.Printf("VIOLATION-FOUND property=%s replay=%s\nHANG\n", doc.Property, p)
		os.Exit(3)
	}
}

func mustJSON(v any) json.RawMessage {
	j, _ := json.Marshal(v)
	return j
}

func loadReplay(t *testing.T) (replayDoc, bool) {
	p := os.Getenv("VERIF_REPLAY")
	if p == "" {
		t.Skip("VERIF_REPLAY not set")
		return replayDoc{}, false
	}
	b, err := os.ReadFile(p)
	if err != nil {
		t.Fatalf("read replay: %v", err)
	}
	var d replayDoc
	if err := json.Unmarshal(b, &d); err != nil {
		t.Fatalf("parse replay: %v", err)
	}
	return d, true
}

// replaysFor lists the committed regression inputs of a property.
func replaysFor(prop string) []string {
	var out []string
	for _, dir := range []string{verifRoot() + "/findings", verifRoot() + "/regress"} {
		m, _ := filepath.Glob(filepath.Join(dir, prop+"-*.json"))
		out = append(out, m...)
	}
	sort.Strings(out)
	return out
}

// knownFindings returns the ids of findings with status "known" for a property.
type finding struct {
	ID        string   `json:"id"`
	Property  string   `json:"property"`
	Status    string   `json:"status"`
	Signature string   `json:"signature"`
	Replay    string   `json:"replay"`
	Commit    string   `json:"commit,omitempty"`
	Also      []string `json:"also,omitempty"`
}

func loadFindings() []finding {
	b, err := os.ReadFile(verifRoot() + "/known_findings.json")
	if err != nil {
		return nil
	}
	var doc struct {
		Findings []finding `json:"findings"`
	}
	if json.Unmarshal(b, &doc) != nil {
		return nil
	}
	return doc.Findings
}

func isKnown(id string) bool {
	for _, f := range loadFindings() {
		if f.ID == id && f.Status == "known" {
			return true
		}
	}
	return false
}

// historyCfg is the JSON form of the knobs a history replay needs.
type historyCfg struct {
	Steps int `json:"steps,omitempty"`
}

// runHistory drives one generated history; per-op hook after may add oracles. A violation ends
// the case through fail (which records the replay and calls Fatalf).
func runHistory(rt *rapid.T, e *drv.Env, cfg gen.Cfg, after func(op drv.Op) *drv.Violation, fail func(*drv.Violation)) {
	rt.Repeat(map[string]func(*rapid.T){
		"op": func(rt *rapid.T) {
			op := gen.Next(rt, e, cfg)
			if v := e.Apply(op); v != nil {
				fail(v)
			}
			if after != nil {
				if v := after(op); v != nil {
					fail(v)
				}
			}
		},
	})
}

// finishHistory brings the environment to rest: commit the open write transaction, close the
// readers (comparing them once more), compare the final state, reopen and compare again.
func finishHistory(e *drv.Env, fail func(*drv.Violation)) {
	steps := []drv.Op{}
	if e.RW != nil {
		steps = append(steps, drv.Op{Op: drv.OpCommit})
	}
	ids := make([]int, 0, len(e.RO))
	for id := range e.RO {
		ids = append(ids, id)
	}
	sort.Ints(ids)
	for _, id := range ids {
		steps = append(steps, drv.Op{Op: drv.OpCloseRO, Tx: id})
	}
	for _, op := range steps {
		if v := e.Apply(op); v != nil {
			fail(v)
		}
	}
}

func jsonUnmarshal(b []byte, v any) error {
	if len(b) == 0 {
		return nil
	}
	return json.Unmarshal(b, v)
}

func getenv(k, def string) string {
	if v := os.Getenv(k); v != "" {
		return v
	}
	return def
}

func removeAll(dir string) { _ = os.RemoveAll(dir) }

// failNoShrink reports a violation that must not be shrunk (a hang: every further attempt would cost
// the whole deadline again): the replay is written and the process exits.
func failNoShrink(doc replayDoc, v *drv.Violation) {
	doc.Violation = v.Msg
	p := writeReplay(doc)
	fmt.Printf("VIOLATION-FOUND property=%s replay=%s\n%s\n", doc.Property, p, v.Msg)
	os.Exit(1)
}

// verifRoot is the framework directory (bin/check exports VERIF_ROOT; default /verif).
func verifRoot() string { return getenv("VERIF_ROOT", "/verif") }

// inconclusive ends the process with a status bin/check maps to exit 2: the harness cannot decide
// (its instrumentation does not match the code under test); never a violation.
func inconclusive(msg string) {
	fmt.Printf("INCONCLUSIVE-HARNESS: %s\n", msg)
	os.Exit(5)
}

package props

import (
	"testing"

	"pgregory.net/rapid"

	"go.etcd.io/bbolt/verifh/drv"
	"go.etcd.io/bbolt/verifh/gen"
)

const c04Rule = "rapid state machine over the public Bucket/Tx API (create/delete/move bucket, put/get/delete, cursor delete, sequences, for-each, inspect, key counts, error probes, readers, rollback, reopen with re-drawn options); every result compared with the nested-map model, full dump compared after every commit/rollback/reopen. Non-trivial = at least one commit and (a node split or rebalance happened, per TxStats, or a documented error path was taken). Distinct = SHA-256 of the op log."

func c04Cfg(excluded *int) gen.Cfg {
	cfg := gen.DefaultCfg()
	if isKnown("F2") {
		cfg.NoMoveIntoSelf = true
		cfg.Excluded = excluded
	}
	return cfg
}

func TestC04(t *testing.T) {
	col := newCollector("C04", c04Rule)
	defer col.Flush()
	rapid.Check(t, func(rt *rapid.T) {
		e := drv.NewEnv("c04")
		defer e.Cleanup()
		var excluded int
		cfg := c04Cfg(&excluded)
		fail := func(v *drv.Violation) {
			failCase(rt, replayDoc{Property: "C04", Kind: "history", Ops: e.Log}, v)
		}
		if rapid.IntRange(0, 3).Draw(rt, "withfaults") == 0 {
			cfg.Faults = 3 // a commit that fails is a transaction boundary too: afterwards the model's previous state must hold
		}
		e.AllowCommitErr = true
		e.AfterFailure = failureOracle
		runHistory(rt, e, cfg, nil, fail)
		finishHistory(e, fail)
		c04Finish(e, col, excluded)
	})
}

func c04Finish(e *drv.Env, col *collector, excluded int) {
	nt := false
	if e.DB != nil {
		st := e.DB.Stats().TxStats
		if st.GetSplit() > 0 {
			e.Label("split")
		}
		if st.GetRebalance() > 0 {
			e.Label("rebalance")
		}
		nt = e.Labels["commit"] > 0 && (st.GetSplit() > 0 || st.GetRebalance() > 0 || e.Labels["err-path"] > 0)
	}
	col.Add(e.Log, nt, e.Labels)
	col.Count("excluded_by_known_finding", excluded)
	col.Count("ops", len(e.Log))
}

// TestReplayHistory replays a history log (C04 oracle set) without rapid.
func replayHistoryC04(t *testing.T, d replayDoc) *drv.Violation {
	e := drv.NewEnv("c04r")
	defer e.Cleanup()
	e.AllowCommitErr = true
	e.AfterFailure = failureOracle
	for _, op := range d.Ops {
		if v := e.Apply(op); v != nil {
			return v
		}
	}
	var out *drv.Violation
	finishHistory(e, func(v *drv.Violation) {
		if out == nil {
			out = v
		}
	})
	return out
}

package props

import (
	"errors"
	"fmt"
	"os"
	"path/filepath"
	"sort"
	"testing"

	"pgregory.net/rapid"

	bolt "go.etcd.io/bbolt"

	"go.etcd.io/bbolt/verifh/drv"
	"go.etcd.io/bbolt/verifh/gen"
	"go.etcd.io/bbolt/verifh/model"
	"go.etcd.io/bbolt/verifh/refdec"
)

const c11Rule = "base files = end states of generated histories whose last write activity was a successful commit (page sizes 1024..65536, equal to and different from the OS page size; freelist persisted or not). Damage applied in place and reverted: every byte position 0..63 of the meta structure of either meta page x replacement byte values (quick: about 18 values per position - every single-bit flip, shifts, neighbours and extremes of the stored byte plus 4 generated ones; thorough: all 255); partial overwrites of the OLDER slot by a would-be newer valid meta (every prefix length 1..80, results identical to the old or the new page skipped); one damaged byte in each meta; truncated files, random bytes, foreign magic/version. Oracle: one meta damaged => Open (read-only in place; read-write on a copy for a sample) succeeds, reports the real page size, the dump equals the model of the surviving meta's txid, Tx.Check is clean; both damaged / too small / not a database => Open returns an error and does not panic. Non-trivial = the damaged meta was the newer one (the presented state falls back to the previous, different version) or meta 0 is damaged while the page size differs from the OS page size. Distinct = (base hash, slot, position, value) / (base hash, kind, parameter)."

type c11Base struct {
	dir      string
	path     string
	data     []byte
	f        *refdec.File
	versions map[int]*model.Bucket
	ps       int
	log      []drv.Op
	hash     string
}

func (b *c11Base) version(txid uint64) *model.Bucket {
	if v := b.versions[int(txid)]; v != nil {
		return v
	}
	return model.New()
}

func c11MakeBase(rt *rapid.T, fail func([]drv.Op, *drv.Violation)) *c11Base {
	e := drv.NewEnv("c11")
	var excluded int
	cfg := c04Cfg(&excluded)
	cfg.ErrProbes, cfg.Cursors, cfg.Probes, cfg.Readers = false, false, false, false
	cfg.PageSizes = []int{1024, 1024, 4096, 4096, 16384, 65536}
	cfg.CommitWeight = 30
	f := func(v *drv.Violation) {
		drv.SetFailing()
		log := e.Log
		e.Cleanup()
		fail(log, v)
	}
	runHistory(rt, e, cfg, nil, f)
	finishHistory(e, f)
	if e.DB == nil {
		e.Cleanup()
		return nil
	}
	ps := e.PageSize
	_ = e.CloseDB()
	data := e.FileBytes()
	rf, err := refdec.Open(data, 0)
	if err != nil || !rf.Metas[0].Valid || !rf.Metas[1].Valid {
		e.Cleanup()
		fail(e.Log, drv.Violf("base file at rest: metas not both valid: %v %+v", err, rf))
		return nil
	}
	b := &c11Base{dir: e.Dir, path: e.Path, data: data, f: rf, versions: e.Versions, ps: ps, log: e.Log, hash: hashOf(e.Log)}
	// the Env's registry entry is no longer needed; the directory is removed by the caller
	return b
}

// c11Open opens path and checks that it presents want.
func c11Open(path string, ro bool, wantPS int, want *model.Bucket, what string) (v *drv.Violation) {
	defer func() {
		if r := recover(); r != nil {
			v = drv.Violf("%s: Open/read panicked: %v", what, r)
		}
	}()
	db, err := bolt.Open(path, 0600, &bolt.Options{ReadOnly: ro, Timeout: 0})
	if err != nil {
		return drv.Violf("%s: Open (readonly=%v) fails although one meta page is intact: %v", what, ro, err)
	}
	defer db.Close()
	if got := db.Info().PageSize; got != wantPS {
		return drv.Violf("%s: detected page size %d, real page size %d", what, got, wantPS)
	}
	var dv *drv.Violation
	err = db.View(func(tx *bolt.Tx) error {
		got, d := drv.DumpTx(tx)
		if d != nil {
			dv = d
			return nil
		}
		if diff := model.Diff(got, want); diff != "" {
			dv = drv.Violf("presents a state that differs from the surviving meta's committed state (db vs model): %s", diff)
			return nil
		}
		for e := range tx.Check() {
			if dv == nil {
				dv = drv.Violf("Tx.Check: %v", e)
			}
		}
		return nil
	})
	if err != nil {
		return drv.Violf("%s: View: %v", what, err)
	}
	if dv != nil {
		return drv.Violf("%s: %s", what, dv.Msg)
	}
	return nil
}

// c11MustFail opens path and requires an error (no panic, no success).
func c11MustFail(path string, what string) (v *drv.Violation) {
	defer func() {
		if r := recover(); r != nil {
			v = drv.Violf("%s: Open panicked instead of returning an error: %v", what, r)
		}
	}()
	for _, ro := range []bool{true, false} {
		db, err := bolt.Open(path, 0600, &bolt.Options{ReadOnly: ro})
		if err == nil {
			_ = db.Close()
			return drv.Violf("%s: Open (readonly=%v) succeeded on a file that is not a usable database", what, ro)
		}
	}
	return nil
}

func patchByte(path string, off int64, b byte) {
	fh, err := os.OpenFile(path, os.O_RDWR, 0)
	if err != nil {
		panic(err)
	}
	if _, err := fh.WriteAt([]byte{b}, off); err != nil {
		panic(err)
	}
	fh.Close()
}

func patchBytes(path string, off int64, b []byte) {
	fh, err := os.OpenFile(path, os.O_RDWR, 0)
	if err != nil {
		panic(err)
	}
	if _, err := fh.WriteAt(b, off); err != nil {
		panic(err)
	}
	fh.Close()
}

type c11Doc struct {
	Kind   string `json:"kind"`
	Slot   int    `json:"slot,omitempty"`
	Pos    int    `json:"pos,omitempty"`
	Val    int    `json:"val,omitempty"`
	Param  int    `json:"param,omitempty"`
	Param2 int    `json:"param2,omitempty"`
}

// c11Damage applies one damage to the base file, checks, and reverts it.
func (b *c11Base) damage(d c11Doc) (*drv.Violation, bool) {
	cur, other := b.f.Current(), b.f.Other()
	osps := os.Getpagesize()
	switch d.Kind {
	case "byte":
		off := int64(d.Slot*b.ps + refdec.PageHeaderSize + d.Pos)
		orig := b.data[off]
		if byte(d.Val) == orig {
			return nil, false
		}
		patchByte(b.path, off, byte(d.Val))
		defer patchByte(b.path, off, orig)
		surv := cur
		if d.Slot == cur.Slot {
			surv = other
		}
		what := fmt.Sprintf("meta %d byte %d changed from %#02x to %#02x (page size %d)", d.Slot, d.Pos, orig, d.Val, b.ps)
		v := c11Open(b.path, true, b.ps, b.version(surv.Txid), what)
		if v == nil && (d.Pos+d.Val)%16 == 0 {
			// read-write open on a copy (a read-write open may legitimately write)
			cp := filepath.Join(b.dir, "copy.db")
			data, _ := os.ReadFile(b.path)
			_ = os.WriteFile(cp, data, 0o600)
			v = c11Open(cp, false, b.ps, b.version(surv.Txid), what+" [read-write on a copy]")
			os.Remove(cp)
		}
		nt := d.Slot == cur.Slot && model.Diff(b.version(cur.Txid), b.version(other.Txid)) != "" || (d.Slot == 0 && b.ps != osps)
		return v, nt
	case "prefix":
		// a would-be newer meta aimed at the older slot, only its first Param bytes arrive
		slot := other.Slot
		newer := append([]byte(nil), b.f.MetaBytes(cur.Slot)...)
		g := &refdec.File{Data: append(make([]byte, 0, 2*b.ps), make([]byte, 2*b.ps)...), PageSize: b.ps}
		copy(g.Data[slot*b.ps:], newer)
		g.PatchMeta(slot, func(m *refdec.Meta) {
			m.Txid = cur.Txid + 1
			m.Pgid = cur.Pgid + 3
			m.Root = cur.Root + uint64(d.Param2%3)
		})
		// page header: id = slot
		g.Data[slot*b.ps] = byte(slot)
		newer = g.MetaBytes(slot)
		old := append([]byte(nil), b.data[slot*b.ps:slot*b.ps+80]...)
		mixed := append(append([]byte(nil), newer[:d.Param]...), old[d.Param:]...)
		if string(mixed) == string(old) || string(mixed) == string(newer) {
			return nil, false
		}
		patchBytes(b.path, int64(slot*b.ps), mixed)
		defer patchBytes(b.path, int64(slot*b.ps), old)
		what := fmt.Sprintf("meta %d partially overwritten (first %d bytes) by a would-be newer meta (page size %d)", slot, d.Param, b.ps)
		v := c11Open(b.path, true, b.ps, b.version(cur.Txid), what)
		return v, slot == 0 && b.ps != osps
	case "both":
		o0 := int64(0*b.ps + refdec.PageHeaderSize + d.Pos)
		o1 := int64(1*b.ps + refdec.PageHeaderSize + d.Param)
		b0, b1 := b.data[o0], b.data[o1]
		patchByte(b.path, o0, b0^byte(d.Val|1))
		patchByte(b.path, o1, b1^byte(d.Param2|1))
		defer patchByte(b.path, o0, b0)
		defer patchByte(b.path, o1, b1)
		return c11MustFail(b.path, fmt.Sprintf("both meta pages damaged (meta0 byte %d, meta1 byte %d)", d.Pos, d.Param)), true
	case "truncate":
		cp := filepath.Join(b.dir, "trunc.db")
		n := d.Param
		if n > len(b.data) {
			n = len(b.data)
		}
		_ = os.WriteFile(cp, b.data[:n], 0o600)
		defer os.Remove(cp)
		return c11MustFail(cp, fmt.Sprintf("file truncated to %d bytes (page size %d)", n, b.ps)), true
	case "garbage":
		cp := filepath.Join(b.dir, "garbage.db")
		buf := make([]byte, d.Param)
		x := uint32(d.Param2*2654435761 + 1)
		for i := range buf {
			x = x*1664525 + 1013904223
			buf[i] = byte(x >> 24)
		}
		_ = os.WriteFile(cp, buf, 0o600)
		defer os.Remove(cp)
		return c11MustFail(cp, fmt.Sprintf("%d pseudo-random bytes", d.Param)), true
	case "foreign":
		// both metas carry another magic or version, with a correct checksum for those bytes
		g := b.f.Clone()
		for s := 0; s < 2; s++ {
			g.PatchMeta(s, func(m *refdec.Meta) {
				if d.Param == 0 {
					m.Magic ^= 0x01000000
				} else {
					m.Version = uint32(1 + 2*d.Param)
				}
			})
		}
		cp := filepath.Join(b.dir, "foreign.db")
		_ = os.WriteFile(cp, g.Data, 0o600)
		defer os.Remove(cp)
		return c11MustFail(cp, "both metas with a foreign magic/version and matching checksum"), true
	}
	return nil, false
}

func TestC11(t *testing.T) {
	col := newCollector("C11", c11Rule)
	defer col.Flush()
	all := testingTier() == "thorough"
	rapid.Check(t, func(rt *rapid.T) {
		b := c11MakeBase(rt, func(log []drv.Op, v *drv.Violation) {
			failCase(rt, replayDoc{Property: "C11", Kind: "history", Ops: log}, v)
		})
		if b == nil {
			return
		}
		defer os.RemoveAll(b.dir)
		run := func(d c11Doc) {
			v, nt := b.damage(d)
			if v != nil {
				failCase(rt, replayDoc{Property: "C11", Kind: "damage", Ops: b.log, Extra: mustJSON(d)}, v)
			}
			col.AddKeyed(fmt.Sprintf("%s/%s/%d/%d/%d/%d/%d", b.hash, d.Kind, d.Slot, d.Pos, d.Val, d.Param, d.Param2), nt)
		}
		for slot := 0; slot < 2; slot++ {
			for pos := 0; pos < 64; pos++ {
				if all {
					for val := 0; val < 256; val++ {
						run(c11Doc{Kind: "byte", Slot: slot, Pos: pos, Val: val})
					}
				} else {
					// structured replacement values (bit flips, shifts, neighbours, extremes of the stored byte)
					// plus generated ones: damage that keeps a field "plausible" is the interesting kind
					orig := int(b.data[slot*b.ps+refdec.PageHeaderSize+pos])
					vals := map[int]bool{0: true, 0xff: true, (orig << 1) & 0xff: true, orig >> 1: true, (orig + 1) & 0xff: true, (orig + 255) & 0xff: true}
					for bit := 0; bit < 8; bit++ {
						vals[orig^(1<<bit)] = true
					}
					if orig == 0 {
						for bit := 0; bit < 8; bit++ {
							vals[1<<bit] = true
						}
					}
					for i := 0; i < 4; i++ {
						vals[rapid.IntRange(0, 255).Draw(rt, "val")] = true
					}
					keys := make([]int, 0, len(vals))
					for v := range vals {
						keys = append(keys, v)
					}
					sort.Ints(keys)
					for _, v := range keys {
						run(c11Doc{Kind: "byte", Slot: slot, Pos: pos, Val: v})
					}
				}
			}
		}
		for n := 1; n <= 80; n++ {
			run(c11Doc{Kind: "prefix", Param: n, Param2: rapid.IntRange(0, 2).Draw(rt, "rootdelta")})
		}
		for i := 0; i < 16; i++ {
			run(c11Doc{Kind: "both", Pos: rapid.IntRange(0, 63).Draw(rt, "p0"), Param: rapid.IntRange(0, 63).Draw(rt, "p1"), Val: rapid.IntRange(0, 255).Draw(rt, "v0"), Param2: rapid.IntRange(0, 255).Draw(rt, "v1")})
		}
		for _, n := range []int{1, 15, 16, 80, 1023, 1024, 1025, b.ps - 1, b.ps, b.ps + 1, 2*b.ps - 1} {
			run(c11Doc{Kind: "truncate", Param: n})
		}
		for i := 0; i < 6; i++ {
			run(c11Doc{Kind: "garbage", Param: rapid.SampledFrom([]int{1, 100, 4096, 8192, 32768, 100000}).Draw(rt, "glen"), Param2: rapid.IntRange(0, 1<<20).Draw(rt, "gseed")})
		}
		run(c11Doc{Kind: "foreign", Param: 0})
		run(c11Doc{Kind: "foreign", Param: 1})
		col.Count("bases", 1)
		col.Count(fmt.Sprintf("bases_pagesize_%d", b.ps), 1)
		if all {
			col.Count("bases_with_exhaustive_byte_values", 1)
		}
		col.Sample(map[string]any{"base_ops": sampleOf(b.log), "page_size": b.ps, "newest_txid": b.f.Current().Txid})
	})
}

func replayC11(t *testing.T, d replayDoc) *drv.Violation {
	if d.Kind == "file-bytes" {
		var data []byte
		_ = jsonUnmarshal(d.Extra, &data)
		dir := drv.ShmDir("c11bytes")
		defer os.RemoveAll(dir)
		return c11Bytes(dir, data)
	}
	e := drv.NewEnv("c11r")
	defer e.Cleanup()
	for _, op := range d.Ops {
		if v := e.Apply(op); v != nil {
			return v
		}
	}
	var out *drv.Violation
	finishHistory(e, func(v *drv.Violation) {
		if out == nil {
			out = v
		}
	})
	if out != nil || d.Kind != "damage" || e.DB == nil {
		return out
	}
	ps := e.PageSize
	_ = e.CloseDB()
	data := e.FileBytes()
	rf, err := refdec.Open(data, 0)
	if err != nil {
		return drv.Violf("refdec: %v", err)
	}
	b := &c11Base{dir: e.Dir, path: e.Path, data: data, f: rf, versions: e.Versions, ps: ps, log: e.Log}
	var doc c11Doc
	_ = jsonUnmarshal(d.Extra, &doc)
	v, _ := b.damage(doc)
	return v
}

func init() { replayFuncs["C11"] = replayC11 }

// FuzzC11 feeds arbitrary bytes as a database file: Open must return an error or a database that
// can be read without panicking (thorough tier).
func FuzzC11(f *testing.F) {
	f.Add([]byte{})
	f.Add(make([]byte, 8192))
	if g := goldenFiles(); len(g) > 0 {
		for _, gi := range []int{0, 1, len(g) / 2, len(g) - 1} {
			b, err := os.ReadFile(g[gi])
			if err != nil || len(b) < 8192 {
				continue
			}
			// a valid file, and hostile relatives of it: cut short, one or both meta pages wiped, a byte of the
			// magic / version / checksum changed in the first meta
			f.Add(b[:8192])
			f.Add(b[:4096])
			f.Add(b[:1000])
			for _, wipe := range [][2]int{{16, 80}, {0, 16}} {
				c := append([]byte(nil), b[:16384%(len(b)+1)]...)
				if len(c) < 8192 {
					c = append([]byte(nil), b[:8192]...)
				}
				for i := wipe[0]; i < wipe[1]; i++ {
					c[i] = 0
				}
				f.Add(c)
			}
			for _, off := range []int{16, 20, 16 + 56, 16 + 8, 16 + 48} {
				c := append([]byte(nil), b[:8192]...)
				c[off] ^= 0x01
				f.Add(c)
			}
		}
	}
	dir := drv.ShmDir("c11fuzz")
	f.Cleanup(func() { os.RemoveAll(dir) })
	f.Fuzz(func(t *testing.T, data []byte) {
		if len(data) == 0 {
			return
		}
		if v := c11Bytes(dir, data); v != nil {
			failCase(t, replayDoc{Property: "C11", Kind: "file-bytes", Extra: mustJSON(data)}, v)
		}
	})
}

// c11Bytes: arbitrary bytes as a database file. Without a valid meta page (judged by the independent decoder)
// Open must return an error - no panic, no database.
func c11Bytes(dir string, data []byte) (v *drv.Violation) {
	p := filepath.Join(dir, "f.db")
	_ = os.WriteFile(p, data, 0o600)
	rf, err := refdec.Open(data, 0)
	valid := err == nil && rf.Current() != nil
	defer func() {
		if r := recover(); r != nil && !valid {
			v = drv.Violf("Open panicked on a %d-byte file without any valid meta page: %v", len(data), r)
		}
	}()
	db, err := bolt.Open(p, 0600, &bolt.Options{ReadOnly: true})
	if err != nil {
		return nil
	}
	defer db.Close()
	if !valid {
		return drv.Violf("Open succeeded on a %d-byte file in which the independent decoder finds no valid meta page", len(data))
	}
	return nil
}

var _ = errors.Is
var _ = gen.DefaultCfg

package props

import (
	"crypto/sha256"
	"fmt"
	"os"
	"path/filepath"
	"strings"
	"testing"

	"pgregory.net/rapid"

	bolt "go.etcd.io/bbolt"

	"go.etcd.io/bbolt/verifh/drv"
	"go.etcd.io/bbolt/verifh/gen"
	"go.etcd.io/bbolt/verifh/model"
	"go.etcd.io/bbolt/verifh/refdec"
)

const c15Rule = "generated source contents (deep nesting, inline/paged/empty buckets, empty and multi-page values, non-zero sequences at every level) x a generated transaction-size limit (0 = none, 1, 2, small values, values around key+value sizes, up to total size + 1) x {library Compact with the source opened read-only, `bbolt compact -o dst --tx-max-size N src`}. Oracle: dump(dst) = dump(src) = model including every sequence number; Tx.Check(dst) clean; independent decoder accounting of dst clean and its content equal to the model; SHA-256(src) unchanged; CLI exit status 0. Non-trivial = the limit forced >=2 destination commits (dst's newest txid) and the source has a nested bucket with a non-zero sequence. Distinct = SHA-256 of (op log, limit, variant)."

func c15Compare(dst string, want *model.Bucket, what string) (*refdec.Accounting, *drv.Violation) {
	data, err := os.ReadFile(dst)
	if err != nil {
		return nil, drv.Violf("%s: %v", what, err)
	}
	rf, err := refdec.Open(data, 0)
	if err != nil {
		return nil, drv.Violf("%s: independent decoder: %v", what, err)
	}
	a, err := rf.AnalyzeCurrent()
	if err != nil {
		return nil, drv.Violf("%s: %v", what, err)
	}
	if !a.Clean() {
		return a, drv.Violf("%s: page accounting of the destination: %v", what, a.Anomalies)
	}
	if d := model.Diff(a.Tree, want); d != "" {
		return a, drv.Violf("%s: destination content differs from the source (dst vs model): %s", what, d)
	}
	if v := openAndCompare(dst, want, false, what); v != nil {
		return a, v
	}
	return a, nil
}

type c15Doc struct {
	Limit   int64  `json:"limit"`
	Variant string `json:"variant"`
}

func c15Run(srcPath string, want *model.Bucket, limit int64, variant string) (*refdec.Accounting, *drv.Violation) {
	dir := drv.ShmDir("c15")
	defer os.RemoveAll(dir)
	dst := filepath.Join(dir, "dst.db")
	srcBefore, _ := os.ReadFile(srcPath)
	what := fmt.Sprintf("%s compact with tx-max-size %d", variant, limit)
	if variant == "lib" {
		src, err := bolt.Open(srcPath, 0400, &bolt.Options{ReadOnly: true})
		if err != nil {
			return nil, drv.Violf("%s: open source: %v", what, err)
		}
		d, err := bolt.Open(dst, 0600, nil)
		if err != nil {
			src.Close()
			return nil, drv.Violf("%s: open destination: %v", what, err)
		}
		var cerr error
		func() {
			defer func() {
				if r := recover(); r != nil {
					cerr = fmt.Errorf("panic: %v", r)
				}
			}()
			cerr = bolt.Compact(d, src, limit)
		}()
		_ = d.Close()
		_ = src.Close()
		if cerr != nil {
			return nil, drv.Violf("%s: Compact returned %v", what, cerr)
		}
	} else {
		code, out := runCLI("compact", "-o", dst, "--tx-max-size", fmt.Sprint(limit), srcPath)
		if code != 0 {
			return nil, drv.Violf("%s: exit status %d: %s", what, code, strings.TrimSpace(out))
		}
	}
	srcAfter, _ := os.ReadFile(srcPath)
	if sha256.Sum256(srcBefore) != sha256.Sum256(srcAfter) {
		return nil, drv.Violf("%s: the source file was modified", what)
	}
	return c15Compare(dst, want, what)
}

func c15Cfg(excluded *int) gen.Cfg {
	cfg := c04Cfg(excluded)
	cfg.ErrProbes, cfg.Cursors, cfg.Probes, cfg.Readers, cfg.Reopen = false, false, false, false, false
	cfg.BucketWeight = 2
	cfg.CommitWeight = 15
	return cfg
}

func TestC15(t *testing.T) {
	col := newCollector("C15", c15Rule)
	defer col.Flush()
	cliEvery := 4
	rapid.Check(t, func(rt *rapid.T) {
		g := drv.NewEnv("c15g")
		defer g.Cleanup()
		g.SkipDumpAfter = true
		var excluded int
		cfg := c15Cfg(&excluded)
		fail := func(v *drv.Violation) {
			failCase(rt, replayDoc{Property: "C15", Kind: "history", Ops: g.Log}, v)
		}
		runHistory(rt, g, cfg, nil, fail)
		finishHistory(g, fail)
		if g.DB == nil {
			return
		}
		want := g.Committed
		_ = g.CloseDB()
		// total payload size
		var total int64
		var rec func(b *model.Bucket)
		var kvSizes []int64
		seqNested := false
		rec = func(b *model.Bucket) {
			for k, v := range b.Keys {
				total += int64(len(k) + len(v))
				kvSizes = append(kvSizes, int64(len(k)+len(v)))
			}
			for k, s := range b.Sub {
				total += int64(len(k))
				if s.Seq != 0 {
					seqNested = true
				}
				rec(s)
			}
		}
		rec(want)
		nlim := rapid.IntRange(1, 3).Draw(rt, "nlimits")
		for i := 0; i < nlim; i++ {
			var limit int64
			switch rapid.IntRange(0, 6).Draw(rt, "limitclass") {
			case 0:
				limit = 0
			case 1:
				limit = int64(rapid.IntRange(1, 3).Draw(rt, "tiny"))
			case 2:
				limit = int64(rapid.IntRange(4, 200).Draw(rt, "small"))
			case 3:
				if len(kvSizes) > 0 {
					limit = kvSizes[rapid.IntRange(0, len(kvSizes)-1).Draw(rt, "kv")] + int64(rapid.IntRange(-1, 1).Draw(rt, "delta"))
					if limit < 1 {
						limit = 1
					}
				}
			case 4:
				limit = int64(rapid.IntRange(1, int(total)+1).Draw(rt, "any"))
			case 5:
				limit = total + int64(rapid.IntRange(-1, 1).Draw(rt, "delta"))
				if limit < 1 {
					limit = 1
				}
			default:
				limit = 65536
			}
			variant := "lib"
			if rapid.IntRange(0, cliEvery-1).Draw(rt, "cli") == 0 {
				variant = "cli"
			}
			a, v := c15Run(g.Path, want, limit, variant)
			if v != nil {
				failCase(rt, replayDoc{Property: "C15", Kind: "compact", Ops: g.Log, Extra: mustJSON(c15Doc{limit, variant})}, v)
			}
			nt := a != nil && a.Meta.Txid >= 3 && seqNested
			col.AddKeyed(fmt.Sprintf("%s/%d/%s", hashOf(g.Log), limit, variant), nt)
			col.Count("variant_"+variant, 1)
			if a != nil && a.Meta.Txid >= 3 {
				col.Count("multi_commit_destinations", 1)
			}
		}
		col.Sample(map[string]any{"ops": sampleOf(g.Log), "payload_bytes": total})
	})
}

func replayC15(t *testing.T, d replayDoc) *drv.Violation {
	e := drv.NewEnv("c15r")
	defer e.Cleanup()
	for _, op := range d.Ops {
		if v := e.Apply(op); v != nil {
			return v
		}
	}
	var out *drv.Violation
	finishHistory(e, func(v *drv.Violation) {
		if out == nil {
			out = v
		}
	})
	if out != nil || e.DB == nil || d.Kind != "compact" {
		return out
	}
	want := e.Committed
	_ = e.CloseDB()
	var doc c15Doc
	_ = jsonUnmarshal(d.Extra, &doc)
	_, v := c15Run(e.Path, want, doc.Limit, doc.Variant)
	return v
}

func init() { replayFuncs["C15"] = replayC15 }

package props

import (
	"encoding/binary"
	"fmt"
	"sort"
	"testing"
	"unsafe"

	"pgregory.net/rapid"

	"go.etcd.io/bbolt/internal/common"
	fl "go.etcd.io/bbolt/internal/freelist"

	"go.etcd.io/bbolt/verifh/drv"
)

const c09Rule = "sequences over the exported free-list interface that respect the preconditions of the real callers (one writer at a time with txid = last committed + 1, ReleasePendingPages at writer begin, Allocate(txid,n), Free of units that are in use and were not allocated by the same transaction, writer end = commit with Write / user Rollback without allocations / failed commit = Rollback + Reload or NoSyncReload of the committed image, readers registered with the last committed txid, reopen = Read into a fresh instance of either backend). Specification oracle after EVERY operation (exact free and pending sets via the verif-tagged accessor): Allocate(n)=s!=0 => s>=2 and s..s+n-1 were all free and leave the free set; =0 => no run of n consecutive free ids existed; Free makes the unit pending for that txid (Freed true, not allocatable); a release moves a page from pending to free only if no registered reader r has alloc<=r<freeing txid (alloc unknown => r<freeing txid), and with no reader registered releases everything; Rollback and failed commit restore exactly the prior state - checked on the sets and, differentially, on a twin instance that additionally executes rolled-back / failed-and-reloaded write transactions ('ghosts') and must stay in the same state after every later operation (array backend: always; hash-map: until an Allocate picks another equally valid run); FreeCount/PendingCount/Count/Freed/Copyall agree with the sets; Write is decoded by an independent parser (0xFFFF count convention) and re-read by BOTH backends to the same sets. Bounded-exhaustive part: all operation sequences up to a length bound over a concretised alphabet on a small universe. Non-trivial = a successful multi-page Allocate from a fragmented free set after a release performed with >=1 reader registered. Distinct = SHA-256 of the op list."

type flUnit struct {
	start common.Pgid
	n     int
}

// flSpec runs an implementation under the specification.
type flSpec struct {
	backend string
	f       fl.Interface
	hwm     common.Pgid
	lastTx  common.Txid
	writer  common.Txid // 0 = none
	wAllocs int
	readers []common.Txid
	units   map[common.Pgid]int         // in-use units: start -> pages
	allocBy map[common.Pgid]common.Txid // true allocating tx per page (0 unknown)
	free    map[common.Pgid]bool
	pending map[common.Txid]map[common.Pgid]bool
	image   []common.Pgid // free ∪ pending at the last commit
	// writer-begin snapshot for rollback checks
	snapFree    map[common.Pgid]bool
	snapPending map[common.Txid]map[common.Pgid]bool
	snapUnits   map[common.Pgid]int
	snapHwm     common.Pgid
	ops         []string
	// twin: a second instance of the same backend that receives the same calls plus, at "ghost" ops, write
	// transactions that are rolled back (or fail and are reloaded). A rolled-back transaction must leave no
	// trace: from then on both instances must stay in the same state after every operation.
	twin         fl.Interface
	twinLive     bool
	twinDiverged bool // hash-map backend only: an Allocate chose another (equally valid) run on the twin
	ghosts       int
	// statistics
	releasedWithReader bool
	nontrivial         bool
}

func newBackend(name string) fl.Interface {
	if name == "hashmap" {
		return fl.NewHashMapFreelist()
	}
	return fl.NewArrayFreelist()
}

func newFlSpec(backend string, inUse int, freeIDs []common.Pgid) *flSpec {
	s := &flSpec{backend: backend, f: newBackend(backend), units: map[common.Pgid]int{}, allocBy: map[common.Pgid]common.Txid{}, free: map[common.Pgid]bool{}, pending: map[common.Txid]map[common.Pgid]bool{}, lastTx: 1}
	// universe: pages 2..; the first inUse+len(free) ids
	isFree := map[common.Pgid]bool{}
	for _, id := range freeIDs {
		isFree[id] = true
	}
	max := common.Pgid(2 + inUse + len(freeIDs))
	for _, id := range freeIDs {
		if id >= max {
			max = id + 1
		}
	}
	for id := common.Pgid(2); id < max; id++ {
		if isFree[id] {
			s.free[id] = true
		} else {
			s.units[id] = 1
		}
	}
	s.hwm = max
	ids := append(common.Pgids{}, freeIDs...)
	sort.Sort(ids)
	s.f.Init(append(common.Pgids{}, ids...)) // the array backend keeps (and later mutates) the slice it is given
	s.image = ids
	return s
}

// enableTwin starts the rollback-transparency comparison (call directly after newFlSpec).
func (s *flSpec) enableTwin() {
	s.twin = newBackend(s.backend)
	s.twin.Init(append(common.Pgids{}, s.image...))
	s.twinLive = true
}

// mut applies a mutating call to the implementation and to the live twin.
func (s *flSpec) mut(fn func(f fl.Interface)) {
	fn(s.f)
	if s.twinLive {
		fn(s.twin)
	}
}

// compareTwin: the twin, which has additionally seen rolled-back transactions, must be in the same state.
func (s *flSpec) compareTwin() *drv.Violation {
	if !s.twinLive {
		return nil
	}
	f1, p1 := fl.VerifState(s.f)
	f2, p2 := fl.VerifState(s.twin)
	toSet := func(ids common.Pgids) map[common.Pgid]bool {
		m := map[common.Pgid]bool{}
		for _, id := range ids {
			m[id] = true
		}
		return m
	}
	if d := diffSets(toSet(f1), toSet(f2)); d != "" {
		return s.viol("a rolled-back write transaction left a trace: the free set differs between an instance that never saw it and one that did (%d ghost transactions so far): %s", s.ghosts, d)
	}
	for tid, ids := range p1 {
		if d := diffSets(toSet(ids), toSet(p2[tid])); d != "" {
			return s.viol("a rolled-back write transaction left a trace: pending pages of tx %d differ (without vs with the rolled-back transaction): %s", tid, d)
		}
	}
	for tid, ids := range p2 {
		if len(p1[tid]) == 0 && len(ids) > 0 {
			return s.viol("a rolled-back write transaction left a trace: the instance that saw it holds pending pages %v for tx %d", ids, tid)
		}
	}
	return nil
}

// ghost runs an empty write transaction on the implementation (begin = release, then user rollback) and, on
// the twin only, a write transaction that frees units (and, when failed, allocates first) and is then rolled
// back / reloaded from the committed image the way tx.rollback does.
func (s *flSpec) ghost(first, count int, failed, nosync bool, allocN int) *drv.Violation {
	if s.writer != 0 {
		return nil
	}
	if v := s.beginWriter(); v != nil {
		return v
	}
	if v := s.rollbackUser(); v != nil {
		return v
	}
	if !s.twinLive {
		return nil
	}
	s.ops = append(s.ops, fmt.Sprintf("ghost(first=%d,count=%d,failed=%v,nosync=%v,alloc=%d)", first, count, failed, nosync, allocN))
	s.ghosts++
	txid := s.lastTx + 1
	var cands []common.Pgid
	for st := range s.units {
		cands = append(cands, st)
	}
	sort.Slice(cands, func(i, j int) bool { return cands[i] < cands[j] })
	if failed && allocN > 0 {
		s.twin.Allocate(txid, allocN)
	}
	for k := 0; k < count && k < len(cands); k++ {
		st := cands[(first+k)%len(cands)] // consecutive units: adjacent pages are the interesting case
		s.twin.Free(txid, common.NewPage(st, common.LeafPageFlag, 0, uint32(s.units[st]-1)))
	}
	s.twin.Rollback(txid)
	if failed {
		if nosync {
			s.twin.NoSyncReload(append(common.Pgids{}, s.image...))
		} else {
			buf := make([]byte, 16+8*(len(s.image)+1)+8)
			p := (*common.Page)(unsafe.Pointer(&buf[0]))
			g := newBackend("array")
			g.Init(append(common.Pgids{}, s.image...))
			g.Write(p)
			s.twin.Reload(p)
		}
	}
	return s.compareTwin()
}

func cloneSet(m map[common.Pgid]bool) map[common.Pgid]bool {
	o := make(map[common.Pgid]bool, len(m))
	for k := range m {
		o[k] = true
	}
	return o
}

func clonePending(m map[common.Txid]map[common.Pgid]bool) map[common.Txid]map[common.Pgid]bool {
	o := make(map[common.Txid]map[common.Pgid]bool, len(m))
	for k, v := range m {
		o[k] = cloneSet(v)
	}
	return o
}

func setList(m map[common.Pgid]bool) []uint64 {
	out := make([]uint64, 0, len(m))
	for k := range m {
		out = append(out, uint64(k))
	}
	sort.Slice(out, func(i, j int) bool { return out[i] < out[j] })
	return out
}

func (s *flSpec) viol(format string, args ...any) *drv.Violation {
	return drv.Violf("[%s] after ops %v: %s", s.backend, s.ops, fmt.Sprintf(format, args...))
}

// implState reads the implementation's exact sets.
func (s *flSpec) implState() (map[common.Pgid]bool, map[common.Txid]map[common.Pgid]bool, *drv.Violation) {
	f, p := fl.VerifState(s.f)
	free := map[common.Pgid]bool{}
	for _, id := range f {
		if free[id] {
			return nil, nil, s.viol("id %d twice in the free set", id)
		}
		free[id] = true
	}
	pend := map[common.Txid]map[common.Pgid]bool{}
	for tid, ids := range p {
		m := map[common.Pgid]bool{}
		for _, id := range ids {
			if m[id] || free[id] {
				return nil, nil, s.viol("id %d both pending (tx %d) and free/pending elsewhere", id, tid)
			}
			m[id] = true
		}
		if len(m) > 0 {
			pend[tid] = m
		}
	}
	return free, pend, nil
}

// observers: counts, Freed, Copyall must agree with the specification's sets.
func (s *flSpec) checkObservers() *drv.Violation {
	free, pend, v := s.implState()
	if v != nil {
		return v
	}
	if d := diffSets(free, s.free); d != "" {
		return s.viol("free set differs from the specification (impl vs spec): %s", d)
	}
	np := 0
	for tid, m := range s.pending {
		np += len(m)
		if d := diffSets(pend[tid], m); d != "" {
			return s.viol("pending set of tx %d differs from the specification (impl vs spec): %s", tid, d)
		}
	}
	for tid, m := range pend {
		if len(s.pending[tid]) == 0 && len(m) > 0 {
			return s.viol("implementation holds pending pages %v for tx %d, specification none", setList(m), tid)
		}
	}
	if s.f.FreeCount() != len(s.free) || s.f.PendingCount() != np || s.f.Count() != len(s.free)+np {
		return s.viol("FreeCount=%d PendingCount=%d Count=%d, specification %d free %d pending", s.f.FreeCount(), s.f.PendingCount(), s.f.Count(), len(s.free), np)
	}
	for id := common.Pgid(0); id < s.hwm+2; id++ {
		want := s.free[id]
		for _, m := range s.pending {
			if m[id] {
				want = true
			}
		}
		if s.f.Freed(id) != want {
			return s.viol("Freed(%d)=%v, specification %v", id, s.f.Freed(id), want)
		}
	}
	all := make([]common.Pgid, s.f.Count())
	s.f.Copyall(all)
	var want []uint64
	want = append(want, setList(s.free)...)
	for _, m := range s.pending {
		want = append(want, setList(m)...)
	}
	sort.Slice(want, func(i, j int) bool { return want[i] < want[j] })
	for i := range all {
		if i >= len(want) || uint64(all[i]) != want[i] {
			return s.viol("Copyall = %v, specification (sorted free ∪ pending) = %v", all, want)
		}
	}
	return nil
}

func diffSets(a, b map[common.Pgid]bool) string {
	var onlyA, onlyB []uint64
	for k := range a {
		if !b[k] {
			onlyA = append(onlyA, uint64(k))
		}
	}
	for k := range b {
		if !a[k] {
			onlyB = append(onlyB, uint64(k))
		}
	}
	if len(onlyA) == 0 && len(onlyB) == 0 {
		return ""
	}
	sort.Slice(onlyA, func(i, j int) bool { return onlyA[i] < onlyA[j] })
	sort.Slice(onlyB, func(i, j int) bool { return onlyB[i] < onlyB[j] })
	return fmt.Sprintf("only left %v, only right %v", onlyA, onlyB)
}

func (s *flSpec) hasRun(n int) bool {
	ids := setList(s.free)
	run := 0
	for i, id := range ids {
		if i > 0 && ids[i-1]+1 == id {
			run++
		} else {
			run = 1
		}
		if run >= n {
			return true
		}
	}
	return false
}

func (s *flSpec) fragmented() bool {
	ids := setList(s.free)
	gaps := 0
	for i := 1; i < len(ids); i++ {
		if ids[i-1]+1 != ids[i] {
			gaps++
		}
	}
	return gaps >= 1
}

// ---- operations -----------------------------------------------------------------------------

func (s *flSpec) beginWriter() *drv.Violation {
	if s.writer != 0 {
		return nil
	}
	s.ops = append(s.ops, "begin")
	before := clonePending(s.pending)
	s.mut(func(f fl.Interface) { f.ReleasePendingPages() })
	free, pend, v := s.implState()
	if v != nil {
		return v
	}
	// every page that moved must have been pending and safe to release
	for id := range free {
		if s.free[id] {
			continue
		}
		var ftx common.Txid
		found := false
		for tid, m := range before {
			if m[id] {
				ftx, found = tid, true
			}
		}
		if !found {
			return s.viol("ReleasePendingPages made page %d free although it was neither free nor pending", id)
		}
		a := s.allocBy[id]
		for _, r := range s.readers {
			if r < ftx && (a == 0 || r >= a) {
				return s.viol("ReleasePendingPages released page %d (allocated by tx %d, freed by tx %d) although reader %d's version can contain it (readers %v)", id, a, ftx, r, s.readers)
			}
		}
		if len(s.readers) > 0 {
			s.releasedWithReader = true
		}
		s.free[id] = true
		delete(s.pending[ftx], id)
		if len(s.pending[ftx]) == 0 {
			delete(s.pending, ftx)
		}
	}
	for id := range s.free {
		if !free[id] {
			return s.viol("ReleasePendingPages lost free page %d", id)
		}
	}
	if len(s.readers) == 0 && len(pend) > 0 {
		return s.viol("ReleasePendingPages with no reader registered left pages pending: %v", pend)
	}
	s.writer = s.lastTx + 1
	s.wAllocs = 0
	s.snapFree, s.snapPending, s.snapHwm = cloneSet(s.free), clonePending(s.pending), s.hwm
	s.snapUnits = map[common.Pgid]int{}
	for k, v := range s.units {
		s.snapUnits[k] = v
	}
	return s.checkObservers()
}

func (s *flSpec) allocate(n int) *drv.Violation {
	if s.writer == 0 || n < 1 {
		return nil
	}
	s.ops = append(s.ops, fmt.Sprintf("alloc%d", n))
	frag := s.fragmented()
	got := s.f.Allocate(s.writer, n)
	if s.twinLive {
		if got2 := s.twin.Allocate(s.writer, n); got2 != got {
			if s.backend == "array" {
				return s.viol("a rolled-back write transaction left a trace: Allocate(%d) = %d on the instance that never saw it, %d on the one that did", n, got, got2)
			}
			// hash-map backend: which of several suitable runs is taken is unspecified (map order); the twins
			// are no longer comparable
			s.twinLive, s.twinDiverged = false, true
		}
	}
	if got == 0 {
		if s.hasRun(n) {
			return s.viol("Allocate(%d) returned 0 although the free set %v holds a run of %d consecutive ids", n, setList(s.free), n)
		}
		// the caller (db.allocate) takes fresh pages at the high-water mark
		got = s.hwm
		s.hwm += common.Pgid(n)
	} else {
		if got < 2 {
			return s.viol("Allocate(%d) handed out page %d", n, got)
		}
		for i := 0; i < n; i++ {
			id := got + common.Pgid(i)
			if !s.free[id] {
				return s.viol("Allocate(%d) = %d, but page %d was not free (free set %v)", n, got, id, setList(s.free))
			}
			delete(s.free, id)
		}
		if n >= 2 && frag && s.releasedWithReader {
			s.nontrivial = true
		}
	}
	s.wAllocs++
	s.units[got] = n
	for i := 0; i < n; i++ {
		s.allocBy[got+common.Pgid(i)] = s.writer
	}
	return s.checkObservers()
}

// freeUnit frees the idx-th in-use unit (sorted by start) that was not allocated by the writer.
func (s *flSpec) freeUnit(idx int) *drv.Violation {
	if s.writer == 0 {
		return nil
	}
	var cands []common.Pgid
	for st := range s.units {
		if s.allocBy[st] != s.writer {
			cands = append(cands, st)
		}
	}
	if len(cands) == 0 {
		return nil
	}
	sort.Slice(cands, func(i, j int) bool { return cands[i] < cands[j] })
	st := cands[idx%len(cands)]
	n := s.units[st]
	s.ops = append(s.ops, fmt.Sprintf("free%d+%d", st, n-1))
	s.mut(func(f fl.Interface) { f.Free(s.writer, common.NewPage(st, common.LeafPageFlag, 0, uint32(n-1))) })
	delete(s.units, st)
	if s.pending[s.writer] == nil {
		s.pending[s.writer] = map[common.Pgid]bool{}
	}
	for i := 0; i < n; i++ {
		s.pending[s.writer][st+common.Pgid(i)] = true
	}
	return s.checkObservers()
}

func (s *flSpec) writeImage(f fl.Interface) ([]byte, []common.Pgid, *drv.Violation) {
	sz := f.EstimatedWritePageSize()
	need := 16 + 8*f.Count()
	if f.Count() >= 0xFFFF {
		need += 8
	}
	if sz < need {
		return nil, nil, s.viol("EstimatedWritePageSize()=%d underestimates the %d bytes needed for %d ids", sz, need, f.Count())
	}
	buf := make([]byte, sz+8) // aligned backing store
	p := (*common.Page)(unsafe.Pointer(&buf[0]))
	f.Write(p)
	// independent decode
	flags := binary.LittleEndian.Uint16(buf[8:])
	count := int(binary.LittleEndian.Uint16(buf[10:]))
	if flags != 0x10 {
		return nil, nil, s.viol("Write set page flags %#x, want 0x10", flags)
	}
	body := buf[16:]
	if count == 0xFFFF {
		count = int(binary.LittleEndian.Uint64(body))
		body = body[8:]
	}
	if count*8 > len(body) {
		return nil, nil, s.viol("written count %d does not fit the buffer", count)
	}
	ids := make([]common.Pgid, count)
	for i := range ids {
		ids[i] = common.Pgid(binary.LittleEndian.Uint64(body[i*8:]))
		if i > 0 && ids[i] <= ids[i-1] {
			return nil, nil, s.viol("written id list not strictly ascending at %d: %d after %d", i, ids[i], ids[i-1])
		}
	}
	return buf, ids, nil
}

func (s *flSpec) commit() *drv.Violation {
	if s.writer == 0 {
		return nil
	}
	s.ops = append(s.ops, "commit")
	buf, ids, v := s.writeImage(s.f)
	if v != nil {
		return v
	}
	var want []uint64
	want = append(want, setList(s.free)...)
	for _, m := range s.pending {
		want = append(want, setList(m)...)
	}
	sort.Slice(want, func(i, j int) bool { return want[i] < want[j] })
	if len(ids) != len(want) {
		return s.viol("Write stored %d ids, specification (free ∪ pending) has %d", len(ids), len(want))
	}
	for i := range ids {
		if uint64(ids[i]) != want[i] {
			return s.viol("Write stored id %d at %d, specification %d", ids[i], i, want[i])
		}
	}
	// re-reading the page with BOTH backends preserves the set (everything becomes free)
	for _, b := range []string{"array", "hashmap"} {
		g := newBackend(b)
		g.Read((*common.Page)(unsafe.Pointer(&buf[0])))
		gf, gp := fl.VerifState(g)
		if len(gp) != 0 || len(gf) != len(want) {
			return s.viol("Read of the written page with backend %s: %d free %d pending txs, want %d free", b, len(gf), len(gp), len(want))
		}
		sort.Sort(gf)
		for i := range gf {
			if uint64(gf[i]) != want[i] {
				return s.viol("Read of the written page with backend %s: id %d at %d, want %d", b, gf[i], i, want[i])
			}
		}
	}
	s.image = ids
	s.lastTx = s.writer
	s.writer = 0
	return s.checkObservers()
}

func (s *flSpec) restoreSnap() {
	s.free, s.pending, s.hwm = s.snapFree, s.snapPending, s.snapHwm
	s.units = s.snapUnits
	for id, a := range s.allocBy {
		if a == s.writer {
			delete(s.allocBy, id)
		}
	}
}

// rollbackUser: Tx.Rollback before commit (no allocation has happened).
func (s *flSpec) rollbackUser() *drv.Violation {
	if s.writer == 0 || s.wAllocs > 0 {
		return nil
	}
	s.ops = append(s.ops, "rollback")
	s.mut(func(f fl.Interface) { f.Rollback(s.writer) })
	s.restoreSnap()
	s.writer = 0
	return s.checkObservers()
}

// failCommit: the commit failed after allocations: Rollback + reload from the committed image.
func (s *flSpec) failCommit(nosync bool) *drv.Violation {
	if s.writer == 0 {
		return nil
	}
	s.ops = append(s.ops, fmt.Sprintf("failcommit(nosync=%v)", nosync))
	s.mut(func(f fl.Interface) { f.Rollback(s.writer) })
	if nosync {
		s.mut(func(f fl.Interface) { f.NoSyncReload(append(common.Pgids{}, s.image...)) })
	} else {
		// build the committed freelist page
		buf := make([]byte, 16+8*(len(s.image)+1)+8)
		p := (*common.Page)(unsafe.Pointer(&buf[0]))
		g := newBackend("array")
		g.Init(append(common.Pgids{}, s.image...))
		g.Write(p)
		s.mut(func(f fl.Interface) { f.Reload(p) })
	}
	s.restoreSnap()
	// specification: free = committed image minus what is pending now
	want := map[common.Pgid]bool{}
	for _, id := range s.image {
		want[id] = true
	}
	for _, m := range s.pending {
		for id := range m {
			delete(want, id)
		}
	}
	if d := diffSets(s.free, want); d != "" {
		return s.viol("harness: snapshot and image disagree: %s", d)
	}
	s.writer = 0
	return s.checkObservers()
}

func (s *flSpec) addReader() *drv.Violation {
	s.ops = append(s.ops, fmt.Sprintf("reader+%d", s.lastTx))
	s.mut(func(f fl.Interface) { f.AddReadonlyTXID(s.lastTx) })
	s.readers = append(s.readers, s.lastTx)
	return nil
}

func (s *flSpec) removeReader(idx int) *drv.Violation {
	if len(s.readers) == 0 {
		return nil
	}
	sort.Slice(s.readers, func(i, j int) bool { return s.readers[i] < s.readers[j] })
	i := idx % len(s.readers)
	s.ops = append(s.ops, fmt.Sprintf("reader-%d", s.readers[i]))
	rid := s.readers[i]
	s.mut(func(f fl.Interface) { f.RemoveReadonlyTXID(rid) })
	s.readers = append(s.readers[:i], s.readers[i+1:]...)
	return nil
}

// reopen: a fresh instance (given backend) reads the committed image.
func (s *flSpec) reopen(backend string) *drv.Violation {
	if s.writer != 0 || len(s.readers) > 0 {
		return nil
	}
	s.ops = append(s.ops, "reopen-"+backend)
	buf := make([]byte, 16+8*(len(s.image)+1)+8)
	p := (*common.Page)(unsafe.Pointer(&buf[0]))
	g := newBackend(s.backend)
	g.Init(append(common.Pgids{}, s.image...))
	g.Write(p)
	s.backend = backend
	s.f = newBackend(backend)
	s.f.Read(p)
	if s.twin != nil {
		// a fresh pair: the comparison starts anew (also after a divergence by choice)
		s.twin = newBackend(backend)
		s.twin.Read(p)
		s.twinLive = true
	}
	s.free = map[common.Pgid]bool{}
	for _, id := range s.image {
		s.free[id] = true
	}
	s.pending = map[common.Txid]map[common.Pgid]bool{}
	return s.checkObservers()
}

// flOp is one generated operation (replayable).
type flOp struct {
	C string `json:"c"`
	A int    `json:"a,omitempty"`
	B string `json:"b,omitempty"`
}

func (s *flSpec) do(op flOp) *drv.Violation {
	if v := s.do1(op); v != nil {
		return v
	}
	return s.compareTwin()
}

func (s *flSpec) do1(op flOp) *drv.Violation {
	switch op.C {
	case "ghost":
		// A packs: first unit (low 12 bits), count (next 3 bits), failed, nosync, allocN (3 bits)
		return s.ghost(op.A&0xfff, 1+(op.A>>12)&7, (op.A>>15)&1 == 1, (op.A>>16)&1 == 1, (op.A>>17)&7)
	case "begin":
		return s.beginWriter()
	case "reader+":
		return s.addReader()
	case "reader-":
		return s.removeReader(op.A)
	case "reopen":
		return s.reopen(op.B)
	case "alloc":
		return s.allocate(op.A)
	case "free":
		return s.freeUnit(op.A)
	case "commit":
		return s.commit()
	case "rollback":
		return s.rollbackUser()
	case "failcommit":
		return s.failCommit(op.A == 1)
	}
	return nil
}

type c09Doc struct {
	Backend string   `json:"backend"`
	InUse   int      `json:"inuse"`
	Free    []uint64 `json:"free"`
	Ops     []flOp   `json:"ops"`
	Seq     []int    `json:"seq,omitempty"`
	Twin    bool     `json:"twin,omitempty"`
}

// ---- random mode ----------------------------------------------------------------------------

func TestC09(t *testing.T) {
	col := newCollector("C09", c09Rule)
	defer col.Flush()
	rapid.Check(t, func(rt *rapid.T) { c09Random(rt, col) })
}

func c09Random(rt *rapid.T, col *collector) {
	backend := rapid.SampledFrom([]string{"array", "hashmap"}).Draw(rt, "backend")
	inUse := rapid.IntRange(0, 40).Draw(rt, "inuse")
	nfree := rapid.IntRange(0, 60).Draw(rt, "nfree")
	big := rapid.IntRange(0, 19).Draw(rt, "big") == 0
	if big {
		inUse, nfree = rapid.IntRange(100, 1500).Draw(rt, "inuseBig"), rapid.IntRange(50, 500).Draw(rt, "nfreeBig")
	}
	var freeIDs []common.Pgid
	seen := map[common.Pgid]bool{}
	for i := 0; i < nfree; i++ {
		id := common.Pgid(rapid.IntRange(2, 2+inUse+nfree).Draw(rt, "freeid"))
		if !seen[id] {
			seen[id] = true
			freeIDs = append(freeIDs, id)
		}
	}
	s := newFlSpec(backend, inUse, freeIDs)
	withTwin := rapid.Bool().Draw(rt, "twin")
	if withTwin {
		s.enableTwin()
	}
	doc := c09Doc{Backend: backend, InUse: inUse, Twin: withTwin}
	for _, id := range freeIDs {
		doc.Free = append(doc.Free, uint64(id))
	}
	fail := func(v *drv.Violation) {
		failCase(rt, replayDoc{Property: "C09", Kind: "freelist", Extra: mustJSON(doc)}, v)
	}
	if v := s.checkObservers(); v != nil {
		fail(v)
	}
	steps := rapid.IntRange(1, 80).Draw(rt, "steps")
	// directed prefix (40%): an old reader blocks a release, a newer reader is registered, the old one leaves
	var prefix []flOp
	if rapid.IntRange(0, 9).Draw(rt, "directed") < 4 {
		prefix = []flOp{{C: "reader+"}, {C: "begin"}}
		for i, n := 0, rapid.IntRange(1, 6).Draw(rt, "prefree"); i < n; i++ {
			prefix = append(prefix, flOp{C: "free", A: rapid.IntRange(0, 1<<20).Draw(rt, "unit")})
		}
		prefix = append(prefix, flOp{C: "commit"}, flOp{C: "begin"}, flOp{C: "free", A: 3}, flOp{C: "commit"}, flOp{C: "reader+"}, flOp{C: "reader-", A: 0})
	}
	for i := 0; i < steps+len(prefix); i++ {
		var op flOp
		if i < len(prefix) {
			op = prefix[i]
			doc.Ops = append(doc.Ops, op)
			if v := s.do(op); v != nil {
				fail(v)
			}
			continue
		}
		if s.writer == 0 && withTwin {
			op.C = rapid.SampledFrom([]string{"begin", "begin", "begin", "reader+", "reader-", "reopen", "ghost", "ghost"}).Draw(rt, "op")
		} else if s.writer == 0 {
			op.C = rapid.SampledFrom([]string{"begin", "begin", "begin", "reader+", "reader-", "reopen"}).Draw(rt, "op")
		} else {
			op.C = rapid.SampledFrom([]string{"alloc", "alloc", "free", "free", "free", "commit", "commit", "rollback", "failcommit", "reader+", "reader-"}).Draw(rt, "wop")
		}
		switch op.C {
		case "reader-":
			op.A = rapid.IntRange(0, 7).Draw(rt, "ridx")
		case "reopen":
			op.B = rapid.SampledFrom([]string{"array", "hashmap"}).Draw(rt, "reopenBackend")
		case "alloc":
			op.A = rapid.SampledFrom([]int{1, 1, 1, 2, 2, 3, 4, 7, 16, 64}).Draw(rt, "n")
		case "free":
			op.A = rapid.IntRange(0, 1<<20).Draw(rt, "unit")
		case "failcommit":
			op.A = rapid.IntRange(0, 1).Draw(rt, "nosync")
		case "ghost":
			op.A = rapid.IntRange(0, 0xfff).Draw(rt, "gfirst") | rapid.IntRange(0, 7).Draw(rt, "gcount")<<12 | rapid.IntRange(0, 1).Draw(rt, "gfailed")<<15 |
				rapid.IntRange(0, 1).Draw(rt, "gnosync")<<16 | rapid.IntRange(0, 4).Draw(rt, "galloc")<<17
		}
		doc.Ops = append(doc.Ops, op)
		if v := s.do(op); v != nil {
			fail(v)
		}
	}
	labels := map[string]int{"backend-" + backend: 1}
	if s.releasedWithReader {
		labels["released-with-reader"] = 1
	}
	if big {
		labels["big-universe"] = 1
	}
	if withTwin {
		labels["twin"] = 1
	}
	if s.ghosts > 0 {
		labels["ghost-transactions"] = 1
	}
	if s.twinDiverged {
		labels["twin-diverged-by-allocation-choice"] = 1
	}
	col.Add(s.ops, s.nontrivial, labels)
}

// ---- bounded exhaustive mode ------------------------------------------------------------------

// c09Alphabet lists the concretised operations applicable in the current state.
func c09Apply(s *flSpec, op int) *drv.Violation {
	if v := c09Apply1(s, op); v != nil {
		return v
	}
	return s.compareTwin()
}

func c09Apply1(s *flSpec, op int) *drv.Violation {
	switch op {
	case 0:
		return s.beginWriter()
	case 1:
		return s.allocate(1)
	case 2:
		return s.allocate(2)
	case 3:
		return s.allocate(3)
	case 4:
		return s.freeUnit(0)
	case 5:
		return s.freeUnit(1)
	case 6:
		return s.freeUnit(3)
	case 7:
		return s.commit()
	case 8:
		return s.rollbackUser()
	case 9:
		return s.failCommit(false)
	case 10:
		return s.failCommit(true)
	case 11:
		return s.addReader()
	case 12:
		return s.removeReader(0)
	case 13:
		return s.removeReader(1)
	case 14:
		return s.ghost(0, 2, false, false, 0)
	case 15:
		return s.ghost(1, 1, true, false, 1)
	}
	return nil
}

const c09NumOps = 16

func c09Enabled(s *flSpec, op int) bool {
	switch op {
	case 0:
		return s.writer == 0
	case 1, 2, 3, 4, 5, 6, 7, 9, 10:
		return s.writer != 0
	case 8:
		return s.writer != 0 && s.wAllocs == 0
	case 11:
		return len(s.readers) < 3
	case 12:
		return len(s.readers) >= 1
	case 13:
		return len(s.readers) >= 2
	case 14, 15:
		return s.writer == 0
	}
	return false
}

func TestC09Exhaustive(t *testing.T) {
	col := newCollector("C09", c09Rule)
	defer col.Flush()
	depth := 5
	if testingTier() == "thorough" {
		depth = 6
	}
	shard, shards := atoiDef(getenv("VERIF_SHARD_INDEX", "0"), 0), atoiDef(getenv("VERIF_SHARDS", "1"), 1)
	total, nontriv := 0, 0
	// universe: pages 2..9, in use {2,3,5,8}, free {4,6,7,9}
	mk := func(backend string) *flSpec { return newFlSpec(backend, 0, nil) }
	_ = mk
	for _, backend := range []string{"array", "hashmap"} {
		seq := make([]int, 0, depth)
		var rec func() bool
		rec = func() bool {
			// execute seq from scratch
			s := newFlSpec(backend, 4, []common.Pgid{4, 6, 7, 9})
			s.enableTwin()
			for _, op := range seq {
				if !c09Enabled(s, op) {
					return true // not a legal sequence: prune
				}
				if v := c09Apply(s, op); v != nil {
					failCase(t, replayDoc{Property: "C09", Kind: "freelist-exhaustive", Extra: mustJSON(c09Doc{Backend: backend, Seq: append([]int(nil), seq...)})}, v)
				}
			}
			if len(seq) > 0 {
				total++
				if s.nontrivial {
					nontriv++
					col.AddKeyed(fmt.Sprintf("ex/%s/%v", backend, seq), true)
				} else {
					col.AddKeyed("", false)
				}
			}
			if len(seq) == depth {
				return true
			}
			for op := 0; op < c09NumOps; op++ {
				if len(seq) == 0 && op%shards != shard {
					continue
				}
				seq = append(seq, op)
				rec()
				seq = seq[:len(seq)-1]
			}
			return true
		}
		rec()
	}
	col.Count("exhaustive_sequences", total)
	col.Count("exhaustive_depth", depth)
	col.Count("exhaustive_complete", 1)
	col.Sample(map[string]any{"exhaustive": fmt.Sprintf("all legal sequences of <=%d ops over 16 concretised operations (incl. two kinds of rolled-back ghost transactions on a twin instance), universe pages 2..9 (in use 2,3,5,8; free 4,6,7,9), <=3 readers, both backends; first-op shard %d of %d", depth, shard, shards), "sequences": total})
}

func atoiDef(s string, d int) int {
	n := 0
	if s == "" {
		return d
	}
	for _, c := range s {
		if c < '0' || c > '9' {
			return d
		}
		n = n*10 + int(c-'0')
	}
	return n
}

// ---- serialisation around the 0xFFFF convention ----------------------------------------------

func TestC09Serialize(t *testing.T) {
	col := newCollector("C09", c09Rule)
	defer col.Flush()
	for _, n := range []int{0, 1, 2, 65533, 65534, 65535, 65536, 70000} {
		for _, backend := range []string{"array", "hashmap"} {
			for _, npend := range []int{0, 3} {
				var free []common.Pgid
				// fragmented: every id except multiples of 5
				id := common.Pgid(2)
				for len(free) < n {
					if id%5 != 0 {
						free = append(free, id)
					}
					id++
				}
				s := newFlSpec(backend, 0, free)
				// the in-use pages are the multiples of 5 below the high-water mark
				if v := s.beginWriter(); v != nil {
					failCase(t, replayDoc{Property: "C09", Kind: "freelist-serialize", Extra: mustJSON(map[string]any{"n": n, "backend": backend})}, v)
				}
				for i := 0; i < npend; i++ {
					if v := s.freeUnit(i * 7); v != nil {
						failCase(t, replayDoc{Property: "C09", Kind: "freelist-serialize", Extra: mustJSON(map[string]any{"n": n, "backend": backend})}, v)
					}
				}
				if v := s.commit(); v != nil {
					failCase(t, replayDoc{Property: "C09", Kind: "freelist-serialize", Extra: mustJSON(map[string]any{"n": n, "backend": backend, "pending": npend})}, v)
				}
				other := map[string]string{"array": "hashmap", "hashmap": "array"}[backend]
				if v := s.reopen(other); v != nil {
					failCase(t, replayDoc{Property: "C09", Kind: "freelist-serialize", Extra: mustJSON(map[string]any{"n": n, "backend": backend, "pending": npend})}, v)
				}
				col.AddKeyed(fmt.Sprintf("ser/%d/%s/%d", n, backend, npend), n >= 65534)
			}
		}
	}
	col.Sample(map[string]any{"serialize_sizes": []int{0, 1, 2, 65533, 65534, 65535, 65536, 70000}})
}

// FuzzC09 drives the same property from Go's coverage-guided fuzzer (thorough tier).
func FuzzC09(f *testing.F) {
	col := newCollector("C09", c09Rule)
	f.Cleanup(col.Flush)
	f.Fuzz(rapid.MakeFuzz(func(rt *rapid.T) { c09Random(rt, col) }))
}

func replayC09(t *testing.T, d replayDoc) *drv.Violation {
	var doc c09Doc
	_ = jsonUnmarshal(d.Extra, &doc)
	if d.Kind == "freelist-exhaustive" {
		s := newFlSpec(doc.Backend, 4, []common.Pgid{4, 6, 7, 9})
		s.enableTwin()
		for _, op := range doc.Seq {
			if v := c09Apply(s, op); v != nil {
				return v
			}
		}
		return nil
	}
	var free []common.Pgid
	for _, id := range doc.Free {
		free = append(free, common.Pgid(id))
	}
	s := newFlSpec(doc.Backend, doc.InUse, free)
	if doc.Twin {
		s.enableTwin()
	}
	if v := s.checkObservers(); v != nil {
		return v
	}
	for _, op := range doc.Ops {
		if v := s.do(op); v != nil {
			return v
		}
	}
	return nil
}

func init() { replayFuncs["C09"] = replayC09 }

package props

import (
	"bytes"
	"fmt"
	"os"
	"testing"

	"pgregory.net/rapid"

	bolt "go.etcd.io/bbolt"

	"go.etcd.io/bbolt/verifh/drv"
	"go.etcd.io/bbolt/verifh/gen"
	"go.etcd.io/bbolt/verifh/model"
	"go.etcd.io/bbolt/verifh/refdec"
)

const c01Rule = "a generated history (full API incl. large values, bucket create/delete/move, readers opened and closed between writers, reopenings with re-drawn options; NoSync never set) is executed once while the hook records every pwrite, fdatasync, ftruncate and grow-sync of the data file. Crash points: after every recorded I/O call. At a crash point the unsynced set is every 512-byte sector written since the last completed sync plus pending truncates; the persisted subsets none, all, each single write alone, all-but-one write and generated sector masks (incl. torn meta pages) are materialised as crash images. Oracle per image: Open succeeds; the dump equals the model of the last commit that had returned nil - or of the in-flight commit iff its meta page is byte-complete in the image; Tx.Check is empty; the independent decoder's accounting is clean; a follow-up write transaction commits and survives a reopen. Excluded (as the README does): crashes before the initialisation of a brand-new file was synced. Non-trivial = crash point inside a commit with a persisted subset that is neither empty nor everything, or with a torn meta write. Distinct = (history hash, crash index, subset id)."

const sector = 512

type pendItem struct {
	off   int64
	data  []byte
	trunc int64 // >0: pending truncate to this size
	ev    int
	meta  bool
}

type crashSim struct {
	durable []byte
	pend    []pendItem
}

func (c *crashSim) flush() {
	// crash points captured earlier keep referring to the old durable image: copy before modifying
	c.durable = append([]byte(nil), c.durable...)
	for _, p := range c.pend {
		c.durable = applyItem(c.durable, p, nil)
	}
	c.pend = nil
}

// applyItem applies a pending item; mask (nil = all) selects the sectors of a write that persist.
func applyItem(img []byte, p pendItem, mask func(sectorIdx int) bool) []byte {
	if p.trunc > 0 {
		if int64(len(img)) < p.trunc {
			img = append(img, make([]byte, p.trunc-int64(len(img)))...)
		}
		return img
	}
	n := len(p.data)
	for s := 0; s*sector < n; s++ {
		if mask != nil && !mask(s) {
			continue
		}
		lo := s * sector
		hi := lo + sector
		if hi > n {
			hi = n
		}
		end := p.off + int64(hi)
		if int64(len(img)) < end {
			img = append(img, make([]byte, end-int64(len(img)))...)
		}
		copy(img[p.off+int64(lo):end], p.data[lo:hi])
	}
	return img
}

type c01Point struct {
	ev        int           // crash after trace event index ev
	sim       crashSim      // snapshot (durable shared copy-on-write: copied at image time)
	cur       *model.Bucket // state of the last commit that returned nil
	inflight  *model.Bucket // state of the in-flight commit (nil if none or its meta write not issued yet)
	metaItem  *pendItem     // the in-flight commit's meta write
	inCommit  bool
	pageSize  int
	opts      drv.OpenOpts
	afterInit bool
}

// c01Points walks the trace and returns the crash points with their expected states.
func c01Points(trace []drv.IOEvent, versions map[int]*model.Bucket, pageSizeOf func(i int) int, optsOf func(i int) drv.OpenOpts) []c01Point {
	var pts []c01Point
	sim := crashSim{}
	var cur *model.Bucket = model.New()
	inflightTx := -1
	var metaItem *pendItem
	initSynced := false
	for i, ev := range trace {
		if ev.Failed {
			continue // failed by injection = not performed: neither pending nor a barrier, and no crash point of its own
		}
		switch ev.Kind {
		case "W":
			it := pendItem{off: ev.Off, data: ev.Data, ev: i}
			ps := pageSizeOf(i)
			if ps > 0 && ev.Off < int64(2*ps) && len(sim.durable) > 0 {
				it.meta = true
			}
			sim.pend = append(sim.pend, it)
			if it.meta && inflightTx >= 0 {
				m := it
				metaItem = &m
			}
		case "T":
			sim.pend = append(sim.pend, pendItem{trunc: int64(ev.Size), ev: i})
		case "S", "GS":
			sim.flush()
			initSynced = true
		case "commit-start":
			inflightTx = ev.Tag
			metaItem = nil
		case "commit-ok":
			if v := versions[ev.Tag]; v != nil {
				cur = v
			}
			inflightTx = -1
			metaItem = nil
			continue
		case "commit-err":
			inflightTx = -1
			metaItem = nil
			continue
		default:
			continue
		}
		if ev.Kind != "W" && ev.Kind != "T" && ev.Kind != "S" && ev.Kind != "GS" {
			continue
		}
		if !initSynced {
			continue
		}
		p := c01Point{ev: i, cur: cur, inCommit: inflightTx >= 0, pageSize: pageSizeOf(i), opts: optsOf(i), afterInit: true}
		p.sim.durable = sim.durable
		p.sim.pend = append([]pendItem(nil), sim.pend...)
		if inflightTx >= 0 && metaItem != nil {
			p.inflight = versions[inflightTx]
			p.metaItem = metaItem
		}
		pts = append(pts, p)
	}
	return pts
}

type c01Subset struct {
	id   string
	keep func(itemIdx, sectorIdx int) bool
	// metaPrefix > 0: of pending item metaIdx (a meta page write) only the first metaPrefix bytes persist
	// (a tear inside the first sector: stronger than the sector model, this is what the checksum is for)
	metaPrefix int
	metaIdx    int
}

func c01Subsets(rt *rapid.T, p c01Point, extra int, tears bool) []c01Subset {
	n := len(p.sim.pend)
	subs := []c01Subset{{id: "none", keep: func(int, int) bool { return false }}}
	if n == 0 {
		return subs
	}
	subs = append(subs, c01Subset{id: "all", keep: func(int, int) bool { return true }})
	if n > 1 {
		for i := 0; i < n && i < 6; i++ {
			i := i
			subs = append(subs, c01Subset{id: fmt.Sprintf("only%d", i), keep: func(it, s int) bool { return it == i }})
			subs = append(subs, c01Subset{id: fmt.Sprintf("allbut%d", i), keep: func(it, s int) bool { return it != i }})
		}
	}
	// torn meta page: every single sector alone / missing
	if tears {
		for i, it := range p.sim.pend {
			if !it.meta {
				continue
			}
			ns := (len(it.data) + sector - 1) / sector
			for s := 0; s < ns && s < 8; s++ {
				i, s := i, s
				subs = append(subs, c01Subset{id: fmt.Sprintf("meta%d-only-sector%d", i, s), keep: func(it, sc int) bool { return it != i || sc == s }})
				subs = append(subs, c01Subset{id: fmt.Sprintf("meta%d-without-sector%d", i, s), keep: func(it, sc int) bool { return it != i || sc != s }})
			}
			for _, n := range []int{8, 16, 20, 24, 32, 48, 56, 64, 71, 72, 79} {
				i := i
				subs = append(subs, c01Subset{id: fmt.Sprintf("meta%d-prefix%d", i, n), keep: func(it, sc int) bool { return it != i }, metaPrefix: n, metaIdx: i})
			}
		}
	}
	for x := 0; x < extra; x++ {
		mask := rapid.Uint64().Draw(rt, "sectormask")
		mask2 := rapid.Uint64().Draw(rt, "itemmask")
		subs = append(subs, c01Subset{id: fmt.Sprintf("mask%x-%x", mask, mask2), keep: func(it, s int) bool {
			if mask2>>(uint(it)%64)&1 == 0 {
				return false
			}
			return mask>>(uint(it*7+s)%64)&1 == 1
		}})
	}
	return subs
}

func (p c01Point) image(sub c01Subset) []byte {
	img := append([]byte(nil), p.sim.durable...)
	for i, it := range p.sim.pend {
		i := i
		if it.trunc > 0 {
			if sub.keep(i, 0) {
				img = applyItem(img, it, nil)
			}
			continue
		}
		if sub.metaPrefix > 0 && i == sub.metaIdx {
			end := it.off + int64(sub.metaPrefix)
			if int64(len(img)) >= end {
				copy(img[it.off:end], it.data[:sub.metaPrefix])
			}
			continue
		}
		img = applyItem(img, it, func(s int) bool { return sub.keep(i, s) })
	}
	return img
}

// c01CheckImage applies the oracle to one crash image.
func c01CheckImage(img []byte, p c01Point, sub c01Subset, full bool) (*drv.Violation, bool) {
	expected := p.cur
	tornMeta := false
	if p.metaItem != nil {
		m := p.metaItem
		end := m.off + int64(len(m.data))
		if int64(len(img)) >= end && bytes.Equal(img[m.off:end], m.data) {
			expected = p.inflight
		} else if int64(len(img)) >= end {
			// partially persisted?
			old := p.sim.durable
			if int64(len(old)) >= end && !bytes.Equal(img[m.off:end], old[m.off:end]) {
				tornMeta = true
			}
		}
	}
	e := drv.NewEnv("c01i")
	defer e.Cleanup()
	if err := os.WriteFile(e.Path, img, 0o600); err != nil {
		return drv.Violf("write image: %v", err), tornMeta
	}
	e.Committed = expected
	o := drv.OpenOpts{Freelist: p.opts.Freelist, NoFreelistSync: p.opts.NoFreelistSync}
	if p.ev%2 == 1 {
		o.Freelist = map[string]string{"array": "hashmap", "hashmap": "array", "": "hashmap"}[o.Freelist]
	}
	if err := e.Open(o); err != nil {
		return drv.Violf("crash after I/O call #%d, persisted subset %s: Open of the crash image fails: %v", p.ev, sub.id, err), tornMeta
	}
	where := fmt.Sprintf("crash after I/O call #%d, persisted subset %s", p.ev, sub.id)
	if v := e.CheckCommitted(where); v != nil {
		if p.inflight != nil && tornMeta {
			return drv.Violf("%s (torn meta page): %s", where, v.Msg), tornMeta
		}
		return v, tornMeta
	}
	if errs := e.TxCheck(); len(errs) > 0 {
		return drv.Violf("%s: Tx.Check on the recovered database: %v", where, errs), tornMeta
	}
	if _, v := checkAccounting(e, where); v != nil {
		return v, tornMeta
	}
	if full {
		kb, k, val := drv.Lit("zz-after-crash"), drv.Lit("k"), drv.B{S: "v", N: 700}
		for _, op := range []drv.Op{{Op: drv.OpBeginRW}, {Op: drv.OpCreateINE, Key: &kb}, {Op: drv.OpPut, Path: []drv.B{kb}, Key: &k, Val: &val}, {Op: drv.OpCommit}, {Op: drv.OpReopen, Opts: &drv.OpenOpts{Freelist: o.Freelist}}} {
			if v := e.Apply(op); v != nil {
				return drv.Violf("%s: follow-up transaction on the recovered database: %s", where, v.Msg), tornMeta
			}
		}
		if _, v := checkAccounting(e, where+", after follow-up commit and reopen"); v != nil {
			return v, tornMeta
		}
	}
	return nil, tornMeta
}

// c01Failures makes failing commits a legal part of the history: an armed I/O fault (never the final sync
// after the meta write - that case is C08's and leaves the outcome open) or the size limit. A failed commit
// returned an error, so the state the crash oracle expects stays the one of the last successful commit.
func c01Failures(e *drv.Env) {
	e.AllowCommitErr = true
	e.AfterFailure = func(e *drv.Env, err error) *drv.Violation {
		if (e.Failed == nil || !e.FailedInTx) && !isMaxSize(err) {
			return drv.Violf("commit failed with %v without an injected fault", err)
		}
		e.FailAt = 0
		return e.CheckCommitted("after failed commit")
	}
}

// c01TraceComplete applies every recorded (performed) call to an empty image and compares with the real file.
func c01TraceComplete(e *drv.Env) {
	if _, err := os.Stat(e.Path); err != nil {
		return // the history never opened the database
	}
	var img []byte
	for i, ev := range e.Trace {
		if ev.Failed {
			continue
		}
		switch ev.Kind {
		case "W":
			img = applyItem(img, pendItem{off: ev.Off, data: ev.Data, ev: i}, nil)
		case "T":
			if int64(ev.Size) < int64(len(img)) {
				img = img[:ev.Size]
			} else {
				img = applyItem(img, pendItem{trunc: int64(ev.Size), ev: i}, nil)
			}
		}
	}
	real, err := os.ReadFile(e.Path)
	if err != nil {
		inconclusive(fmt.Sprintf("cannot read the data file: %v", err))
	}
	if !bytes.Equal(img, real) {
		n := 0
		for n < len(img) && n < len(real) && img[n] == real[n] {
			n++
		}
		inconclusive(fmt.Sprintf("the recorded I/O calls do not reproduce the data file (replayed %d bytes, file has %d, first difference at offset %d): a write bypasses the verif hook", len(img), len(real), n))
	}
}

type c01Doc struct {
	Ev     int    `json:"crash_after_event"`
	Subset string `json:"subset"`
}

// c01Record executes log with I/O recording and returns the crash points.
func c01Record(log []drv.Op) ([]c01Point, int, *drv.Violation) {
	e := drv.NewEnv("c01")
	defer e.Cleanup()
	e.RecordIO = true
	c01Failures(e)
	type span struct {
		from int
		ps   int
		o    drv.OpenOpts
	}
	var spans []span
	e.OnEvent = func(e *drv.Env, ev *bolt.VerifEvent) error { return nil }
	for _, op := range log {
		if op.Op == drv.OpOpen || op.Op == drv.OpReopen {
			// page size is only known after Open; events of this Open belong to the new span
			spans = append(spans, span{from: len(e.Trace), o: *op.Opts})
		}
		if v := e.Apply(op); v != nil {
			return nil, 0, v
		}
		if op.Op == drv.OpOpen || op.Op == drv.OpReopen {
			spans[len(spans)-1].ps = e.PageSize
		}
	}
	var out *drv.Violation
	finishHistory(e, func(v *drv.Violation) {
		if out == nil {
			out = v
		}
	})
	if out != nil {
		return nil, 0, out
	}
	_ = e.CloseDB()
	// sanity of the instrumentation: replaying the recorded calls must reproduce the file byte for byte;
	// if it does not, some write bypasses the hook and nothing this check says could be trusted
	c01TraceComplete(e)
	find := func(i int) span {
		s := spans[0]
		for _, sp := range spans {
			if sp.from <= i {
				s = sp
			}
		}
		return s
	}
	pts := c01Points(e.Trace, e.Versions, func(i int) int { return find(i).ps }, func(i int) drv.OpenOpts { return find(i).o })
	return pts, e.Labels["commit-failed"], nil
}

func TestC01(t *testing.T) {
	col := newCollector("C01", c01Rule)
	defer col.Flush()
	thorough := testingTier() == "thorough"
	rapid.Check(t, func(rt *rapid.T) {
		// 1. generate the history while executing it
		g := drv.NewEnv("c01g")
		var excluded int
		cfg := c04Cfg(&excluded)
		cfg.ErrProbes, cfg.Cursors, cfg.Probes = false, false, false
		cfg.MaxReaders = 2
		cfg.CommitWeight = 25
		cfg.ReopenWeight = 10
		if rapid.IntRange(0, 2).Draw(rt, "withfaults") == 0 {
			cfg.Faults, cfg.FaultKinds = 4, "W,S,T,GS,"
		}
		if rapid.IntRange(0, 7).Draw(rt, "maxsize") == 0 {
			o := gen.Opts(rt, cfg)
			o.MaxSize = rapid.SampledFrom([]int{48 << 10, 96 << 10, 200 << 10}).Draw(rt, "maxsizeval")
			o.InitialMmapSize = 0
			cfg.FixedOpts = &o
		}
		c01Failures(g)
		failg := func(v *drv.Violation) {
			drv.SetFailing()
			log := g.Log
			g.Cleanup()
			failCase(rt, replayDoc{Property: "C01", Kind: "history", Ops: log}, v)
		}
		runHistory(rt, g, cfg, nil, failg)
		finishHistory(g, failg)
		drv.SetFailing()
		log := g.Log
		g.Cleanup()
		// 2. record its I/O and enumerate crash points
		pts, nfailed, v := c01Record(log)
		if v != nil {
			failCase(rt, replayDoc{Property: "C01", Kind: "history", Ops: log}, v)
		}
		if nfailed > 0 {
			col.Count("histories_with_failed_commits", 1)
			col.Count("failed_commits", nfailed)
		}
		hh := hashOf(log)
		images := 0
		for pi, p := range pts {
			extra := 1
			if thorough {
				extra = 3
			}
			for si, sub := range c01Subsets(rt, p, extra, thorough || pi%3 == 0) {
				img := p.image(sub)
				full := (pi+si)%4 == 0
				v, torn := c01CheckImage(img, p, sub, full)
				if v != nil {
					failCase(rt, replayDoc{Property: "C01", Kind: "crash", Ops: log, Extra: mustJSON(c01Doc{Ev: p.ev, Subset: sub.id})}, v)
				}
				images++
				nt := p.inCommit && len(p.sim.pend) > 0 && ((sub.id != "none" && sub.id != "all") || torn)
				col.AddKeyed(fmt.Sprintf("%s/%d/%s", hh, p.ev, sub.id), nt)
				if torn {
					col.Count("images_with_torn_meta", 1)
				}
				if p.inflight != nil {
					col.Count("images_after_meta_write_issued", 1)
				}
			}
		}
		col.Count("histories", 1)
		col.Count("crash_points", len(pts))
		col.Sample(map[string]any{"ops": sampleOf(log), "crash_points": len(pts), "images": images})
	})
}

func replayC01(t *testing.T, d replayDoc) *drv.Violation {
	pts, _, v := c01Record(d.Ops)
	if v != nil {
		return v
	}
	var doc c01Doc
	_ = jsonUnmarshal(d.Extra, &doc)
	for pi, p := range pts {
		subs := c01SubsetsNoDraw(p)
		var m1, m2 uint64
		if n, _ := fmt.Sscanf(doc.Subset, "mask%x-%x", &m1, &m2); n == 2 {
			subs = append(subs, c01Subset{id: doc.Subset, keep: func(it, s int) bool {
				if m2>>(uint(it)%64)&1 == 0 {
					return false
				}
				return m1>>(uint(it*7+s)%64)&1 == 1
			}})
		}
		for _, sub := range subs {
			if d.Kind == "crash" && (p.ev != doc.Ev || sub.id != doc.Subset) {
				continue
			}
			if v, _ := c01CheckImage(p.image(sub), p, sub, true); v != nil {
				return v
			}
		}
		_ = pi
	}
	return nil
}

// c01SubsetsNoDraw enumerates the deterministic subsets (and decodes mask ids).
func c01SubsetsNoDraw(p c01Point) []c01Subset {
	return c01Subsets(nil, p, 0, true)
}

func init() { replayFuncs["C01"] = replayC01 }

var _ = refdec.Magic
var _ = gen.DefaultCfg

package props

import (
	"os"
	"sync"
	"testing"

	"pgregory.net/rapid"

	bolt "go.etcd.io/bbolt"

	"go.etcd.io/bbolt/verifh/drv"
	"go.etcd.io/bbolt/verifh/gen"
)

const c13Rule = "one generated logical history (incl. readers and commits that fail on an armed I/O fault) is executed under 2-3 generated option schedules (an assignment of freelist backend, NoFreelistSync, page size at creation, InitialMmapSize, NoGrowSync, Mlock when permitted, StrictMode, NoStatistics to EVERY open of the file, plus interposed read-only opens with and without PreLoadFreelist); every API result of every schedule must equal the model's (hence each other's), dumps are compared at every commit, and after every open and commit the free list (persisted, or rebuilt by scanning) must equal the unreachable set computed by the independent decoder. Non-trivial = >=2 schedules that differ in backend and in freelist sync at some open, across >=1 reopen, on a history that freed pages. Distinct = SHA-256 of (op log, schedules)."

var (
	mlockOnce sync.Once
	mlockOK   bool
)

func mlockPermitted() bool {
	mlockOnce.Do(func() {
		d := drv.ShmDir("mlock")
		defer os.RemoveAll(d)
		db, err := bolt.Open(d+"/db", 0600, &bolt.Options{Mlock: true})
		if err == nil {
			mlockOK = true
			_ = db.Close()
		}
	})
	return mlockOK
}

type c13Schedule struct {
	Opens   []drv.OpenOpts `json:"opens"`
	ROProbe []int          `json:"roprobe"` // per open: 0 none, 1 read-only open before it, 2 read-only with preload
}

func c13DrawSchedule(rt *rapid.T, nOpens int, cfg gen.Cfg) c13Schedule {
	var s c13Schedule
	for i := 0; i < nOpens; i++ {
		o := gen.Opts(rt, cfg)
		if i > 0 {
			o.PageSize = 0
		}
		if mlockPermitted() && rapid.IntRange(0, 5).Draw(rt, "mlock") == 0 {
			o.Mlock = true
		}
		o.StrictMode = rapid.IntRange(0, 3).Draw(rt, "strict") == 0
		o.NoStatistics = rapid.IntRange(0, 7).Draw(rt, "nostat") == 0
		o.AllocSize = rapid.SampledFrom([]int{0, 0, 0, 16 << 10, 64 << 10}).Draw(rt, "allocsize") // growth chunk: performance only
		o.Logger = rapid.IntRange(0, 3).Draw(rt, "logger") == 0
		o.MmapPopulate = rapid.IntRange(0, 5).Draw(rt, "populate") == 0
		o.TimeoutMs = rapid.SampledFrom([]int{0, 0, 0, 50, 2000}).Draw(rt, "timeoutms") // lock wait limit: never reached here
		s.Opens = append(s.Opens, o)
		s.ROProbe = append(s.ROProbe, rapid.SampledFrom([]int{0, 0, 1, 2}).Draw(rt, "roprobe"))
	}
	return s
}

// c13Run executes log under schedule s (nil = as logged).
func c13Run(log []drv.Op, s *c13Schedule) (*drv.Env, *drv.Violation) {
	e := drv.NewEnv("c13")
	c13Install(e)
	k := 0
	for _, op := range log {
		if (op.Op == drv.OpOpen || op.Op == drv.OpReopen) && s != nil {
			o := s.Opens[k]
			probe := s.ROProbe[k]
			k++
			if op.Op == drv.OpReopen && probe > 0 {
				if v := e.Apply(drv.Op{Op: drv.OpClose}); v != nil {
					return e, v
				}
				ro := drv.OpenOpts{ReadOnly: true, PreLoadFreelist: probe == 2, Freelist: o.Freelist}
				if v := e.Apply(drv.Op{Op: drv.OpOpen, Opts: &ro}); v != nil {
					return e, drv.Violf("read-only open: %s", v.Msg)
				}
				if errs := e.TxCheck(); len(errs) > 0 {
					return e, drv.Violf("read-only open (preload=%v): Tx.Check: %v", probe == 2, errs)
				}
				if v := e.Apply(drv.Op{Op: drv.OpClose}); v != nil {
					return e, v
				}
				op = drv.Op{Op: drv.OpOpen}
			}
			op.Opts = &o
		}
		if v := e.Apply(op); v != nil {
			return e, v
		}
	}
	var out *drv.Violation
	finishHistory(e, func(v *drv.Violation) {
		if out == nil {
			out = v
		}
	})
	return e, out
}

func c13Install(e *drv.Env) {
	e.AfterCommit = func(e *drv.Env, txid int) *drv.Violation {
		if e.DB.Stats().PendingPageN > 0 {
			e.Label("freed-pages")
		}
		_, v := checkAccounting(e, "after commit")
		return v
	}
	e.AfterOpen = func(e *drv.Env) *drv.Violation {
		_, v := checkAccounting(e, "after open")
		return v
	}
	// commits that fail on an armed I/O fault: every option schedule must still behave per model
	e.AllowCommitErr = true
	e.AfterFailure = func(e *drv.Env, err error) *drv.Violation {
		e.Label("failed-commit")
		return failureOracle(e, err)
	}
}

type c13Doc struct {
	Schedules []c13Schedule `json:"schedules"`
}

func TestC13(t *testing.T) {
	col := newCollector("C13", c13Rule)
	defer col.Flush()
	rapid.Check(t, func(rt *rapid.T) {
		// 1. the logical history, generated while running under its own (schedule 0) options
		e := drv.NewEnv("c13p")
		var excluded int
		cfg := c04Cfg(&excluded)
		cfg.Cursors = false
		cfg.MaxReaders = 2
		cfg.ReopenWeight = 20
		cfg.Faults = 5
		c13Install(e)
		fail0 := func(v *drv.Violation) {
			drv.SetFailing()
			log := e.Log
			e.Cleanup()
			failCase(rt, replayDoc{Property: "C13", Kind: "history", Ops: log, Extra: mustJSON(c13Doc{})}, v)
		}
		runHistory(rt, e, cfg, nil, fail0)
		finishHistory(e, fail0)
		log := e.Log
		labels := e.Labels
		e.Cleanup()
		nOpens, sched0 := 0, c13Schedule{}
		for _, op := range log {
			if op.Op == drv.OpOpen || op.Op == drv.OpReopen {
				nOpens++
				sched0.Opens = append(sched0.Opens, *op.Opts)
			}
		}
		// 2. the same history under other option schedules
		ns := rapid.IntRange(1, 2).Draw(rt, "nschedules")
		doc := c13Doc{}
		differ := false
		for i := 0; i < ns; i++ {
			s := c13DrawSchedule(rt, nOpens, cfg)
			if i == 0 {
				// the first alternative schedule flips backend and freelist sync at every open
				for j := range s.Opens {
					s.Opens[j].NoFreelistSync = !sched0.Opens[j].NoFreelistSync
					s.Opens[j].Freelist = map[string]string{"array": "hashmap", "hashmap": "array"}[sched0.Opens[j].Freelist]
				}
			}
			doc.Schedules = append(doc.Schedules, s)
			for j := range s.Opens {
				if s.Opens[j].Freelist != sched0.Opens[j].Freelist && s.Opens[j].NoFreelistSync != sched0.Opens[j].NoFreelistSync {
					differ = true
				}
			}
			e2, v := c13Run(log, &s)
			for l, n := range e2.Labels {
				labels["s:"+l] += n
			}
			e2.Cleanup()
			if v != nil {
				failCase(rt, replayDoc{Property: "C13", Kind: "history", Ops: log, Extra: mustJSON(doc)}, drv.Violf("under option schedule #%d: %s", i+1, v.Msg))
			}
		}
		nt := differ && nOpens >= 2 && labels["freed-pages"] > 0
		col.Add(map[string]any{"ops": log, "schedules": doc.Schedules}, nt, labels)
		col.Count("schedules_run", ns+1)
	})
}

func replayC13(t *testing.T, d replayDoc) *drv.Violation {
	var doc c13Doc
	_ = jsonUnmarshal(d.Extra, &doc)
	e, v := c13Run(d.Ops, nil)
	e.Cleanup()
	if v != nil {
		return v
	}
	for i := range doc.Schedules {
		e, v := c13Run(d.Ops, &doc.Schedules[i])
		e.Cleanup()
		if v != nil {
			return drv.Violf("under option schedule #%d: %s", i+1, v.Msg)
		}
	}
	return nil
}

func init() { replayFuncs["C13"] = replayC13 }

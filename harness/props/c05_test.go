package props

import (
	"testing"

	"pgregory.net/rapid"

	"go.etcd.io/bbolt/verifh/drv"
	"go.etcd.io/bbolt/verifh/gen"
	"go.etcd.io/bbolt/verifh/refdec"
)

const c05Rule = "generated bucket contents (empty, single leaf, multi-level, with nested buckets; page size mostly 1024) committed, then optionally a batch of puts/deletes in the same write transaction (directed ranges that empty whole leaves: head, tail, middle run, everything), then fresh cursors running generated programs of First/Last/Next/Prev/Seek compared call by call with a sorted list with a position. Non-trivial = a program with >=3 calls and a direction change on a bucket with >=2 leaf pages or dirty nodes. Distinct = SHA-256 of the op log. Counters: programs that run over a leaf emptied in the same transaction (leaf membership measured with the independent decoder)."

func TestC05(t *testing.T) {
	col := newCollector("C05", c05Rule)
	defer col.Flush()
	rapid.Check(t, func(rt *rapid.T) { c05Case(rt, col) })
}

func c05Case(rt *rapid.T, col *collector) {
	e := drv.NewEnv("c05")
	defer e.Cleanup()
	e.SkipDumpAfter = true
	fail := func(v *drv.Violation) {
		failCase(rt, replayDoc{Property: "C05", Kind: "history", Ops: e.Log}, v)
	}
	do := func(op drv.Op) {
		if v := e.Apply(op); v != nil {
			fail(v)
		}
	}
	cfg := gen.DefaultCfg()
	cfg.PageSizes = []int{1024, 1024, 1024, 2048, 4096}
	o := gen.Opts(rt, cfg)
	do(drv.Op{Op: drv.OpOpen, Opts: &o})
	ps := o.PageSize
	bpath := []drv.B{drv.Lit("b")}
	// ---- base content
	do(drv.Op{Op: drv.OpBeginRW})
	kb := drv.Lit("b")
	do(drv.Op{Op: drv.OpCreate, Key: &kb})
	shape := rapid.SampledFrom([]string{"empty", "tiny", "leaf", "multi", "multi", "multi", "deep"}).Draw(rt, "shape")
	pre := drv.Lit("k")
	kn, count, vn := 0, 0, 8
	switch shape {
	case "tiny":
		count = rapid.IntRange(1, 3).Draw(rt, "count")
	case "leaf":
		count = rapid.IntRange(2, 12).Draw(rt, "count")
	case "multi":
		count = rapid.IntRange(20, 160).Draw(rt, "count")
		vn = rapid.SampledFrom([]int{8, 60, 200}).Draw(rt, "vn")
	case "deep":
		count = rapid.IntRange(60, 220).Draw(rt, "count")
		kn = rapid.SampledFrom([]int{120, 300}).Draw(rt, "kn")
		vn = rapid.SampledFrom([]int{0, 40}).Draw(rt, "vn")
	}
	if count > 0 {
		v := drv.B{S: "v", N: vn}
		do(drv.Op{Op: drv.OpBulkPut, Path: bpath, Key: &pre, From: 0, To: count, KN: kn, Val: &v})
	}
	nested := rapid.IntRange(0, 8).Draw(rt, "nested")
	for i := 0; i < nested; i++ {
		c2 := cfg
		c2.Large = false
		var k drv.B
		if count > 0 && rapid.IntRange(0, 2).Draw(rt, "nestedkind") > 0 {
			// a name right next to a bulk key: nested buckets end up anywhere inside the tree, also as the
			// first or last element of a leaf
			base := drv.BulkKey(pre, rapid.IntRange(0, count-1).Draw(rt, "nestedat"), kn)
			switch rapid.IntRange(0, 2).Draw(rt, "nestedsuffix") {
			case 0:
				k = drv.FromBytes(append(append([]byte{}, base...), 0))
			case 1:
				k = drv.FromBytes(append(append([]byte{}, base...), '~'))
			default:
				b := append([]byte{}, base...)
				b[len(b)-1]--
				k = drv.FromBytes(append(b, 0xff))
			}
		} else {
			k = gen.Key(rt, e.RW.Model().Lookup([]string{"b"}), c2, ps)
		}
		do(drv.Op{Op: drv.OpCreateINE, Path: bpath, Key: &k})
	}
	do(drv.Op{Op: drv.OpCommit})
	// leaves of the committed bucket, from the independent decoder
	leafSets := [][]string{}
	if f, err := refdec.Open(e.FileBytes(), 0); err == nil {
		if a, err := f.AnalyzeCurrent(); err == nil {
			bnames := map[string]bool{}
			for _, n := range e.Committed.Sub["b"].Names() {
				bnames[n] = true
			}
			for _, names := range a.LeafNames {
				if len(names) > 0 && bnames[names[0]] && names[0] != "b" {
					leafSets = append(leafSets, names)
				}
			}
		}
	}
	if rapid.IntRange(0, 5).Draw(rt, "reopen") == 0 {
		o2 := gen.Opts(rt, cfg)
		o2.PageSize = 0
		do(drv.Op{Op: drv.OpReopen, Opts: &o2})
	}
	// ---- transaction under test
	txid := 0
	dirty := false
	if rapid.IntRange(0, 3).Draw(rt, "mode") == 0 {
		txid = 1
		do(drv.Op{Op: drv.OpBeginRO, Tx: 1})
	} else {
		do(drv.Op{Op: drv.OpBeginRW})
		nb := rapid.IntRange(0, 5).Draw(rt, "batch")
		for i := 0; i < nb; i++ {
			dirty = true
			mb := e.RW.Model().Lookup([]string{"b"})
			switch rapid.SampledFrom([]string{"delrange", "delrange", "delrange", "delhead", "deltail", "delall", "putrange", "put", "del", "mkbucket", "rmbucket"}).Draw(rt, "batchop") {
			case "delrange":
				if count > 0 {
					from := rapid.IntRange(0, count-1).Draw(rt, "from")
					to := from + rapid.IntRange(1, count-from).Draw(rt, "n")
					do(drv.Op{Op: drv.OpBulkDel, Path: bpath, Key: &pre, From: from, To: to, KN: kn})
				}
			case "delhead":
				if count > 0 {
					do(drv.Op{Op: drv.OpBulkDel, Path: bpath, Key: &pre, From: 0, To: rapid.IntRange(1, count).Draw(rt, "n"), KN: kn})
				}
			case "deltail":
				if count > 0 {
					do(drv.Op{Op: drv.OpBulkDel, Path: bpath, Key: &pre, From: rapid.IntRange(0, count-1).Draw(rt, "from"), To: count, KN: kn})
				}
			case "delall":
				for _, n := range mb.KeyNames() {
					k := drv.FromBytes([]byte(n))
					do(drv.Op{Op: drv.OpDelete, Path: bpath, Key: &k})
				}
			case "putrange":
				from := rapid.IntRange(0, count+20).Draw(rt, "from")
				v := drv.B{S: "w", N: rapid.SampledFrom([]int{0, 8, 100}).Draw(rt, "vn2")}
				do(drv.Op{Op: drv.OpBulkPut, Path: bpath, Key: &pre, From: from, To: from + rapid.IntRange(1, 30).Draw(rt, "n"), KN: kn, Val: &v})
			case "put":
				k := gen.Key(rt, mb, cfg, ps)
				if k.N > 2000 {
					k.N = 2000
				}
				v := gen.Val(rt, cfg, ps)
				do(drv.Op{Op: drv.OpPut, Path: bpath, Key: &k, Val: &v})
			case "del":
				k := gen.Key(rt, mb, cfg, ps)
				do(drv.Op{Op: drv.OpDelete, Path: bpath, Key: &k})
			case "mkbucket":
				c2 := cfg
				c2.Large = false
				k := gen.Key(rt, mb, c2, ps)
				do(drv.Op{Op: drv.OpCreateINE, Path: bpath, Key: &k})
			case "rmbucket":
				if subs := mb.SubNames(); len(subs) > 0 {
					k := drv.FromBytes([]byte(subs[rapid.IntRange(0, len(subs)-1).Draw(rt, "sub")]))
					do(drv.Op{Op: drv.OpDeleteBkt, Path: bpath, Key: &k})
				}
			}
		}
	}
	// which committed leaves are now empty?
	emptied := 0
	if txid == 0 {
		cur := e.RW.Model().Lookup([]string{"b"})
		for _, names := range leafSets {
			all := true
			for _, n := range names {
				if cur.Has(n) != 0 {
					all = false
					break
				}
			}
			if all {
				emptied++
			}
		}
	}
	// ---- cursor programs
	nprog := rapid.IntRange(1, 4).Draw(rt, "nprog")
	nontrivial := false
	for p := 0; p < nprog; p++ {
		var m = e.Committed
		if txid == 0 {
			m = e.RW.Model()
		}
		path := bpath
		target := m.Lookup([]string{"b"})
		if rapid.IntRange(0, 9).Draw(rt, "onroot") == 0 {
			path, target = nil, m
		}
		calls := gen.CursorCalls(rt, target, cfg, ps, rapid.IntRange(1, 40).Draw(rt, "ncalls"))
		before := e.Labels["cursor-dir-change"]
		do(drv.Op{Op: drv.OpCursor, Tx: txid, Path: path, Cur: calls})
		if len(calls) >= 3 && e.Labels["cursor-dir-change"] > before && (len(leafSets) >= 2 || dirty) {
			nontrivial = true
		}
	}
	// a full forward/backward sweep as the last program (visits every key exactly once)
	do(drv.Op{Op: drv.OpDumpTx, Tx: txid})
	if emptied > 0 {
		e.Label("emptied-leaf")
		col.Count("programs_over_emptied_leaves", nprog)
		if emptied == len(leafSets) {
			e.Label("all-leaves-emptied")
		}
	}
	if len(leafSets) >= 2 {
		e.Label("multi-leaf")
	}
	if dirty {
		e.Label("dirty")
	}
	e.Label("shape-" + shape)
	if txid == 0 {
		if rapid.Bool().Draw(rt, "commit") {
			do(drv.Op{Op: drv.OpCommit})
			if v := e.CheckCommitted("after commit"); v != nil {
				fail(v)
			}
		} else {
			do(drv.Op{Op: drv.OpRollback})
		}
	} else {
		do(drv.Op{Op: drv.OpCloseRO, Tx: 1})
	}
	col.Add(e.Log, nontrivial, e.Labels)
	col.Count("cursor_programs", nprog)
}

func init() {
	replayFuncs["C05"] = replayHistoryC04 // same executor: the cursor oracle lives in the op
}

// FuzzC05 drives the cursor property from Go's coverage-guided fuzzer (thorough tier): the fuzz input is the
// rapid draw stream, so a finding is shrunk and reported exactly like one of the random search.
func FuzzC05(f *testing.F) {
	col := newCollector("C05", c05Rule)
	f.Cleanup(col.Flush)
	f.Fuzz(rapid.MakeFuzz(func(rt *rapid.T) { c05Case(rt, col) }))
}

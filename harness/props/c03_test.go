package props

import (
	"encoding/binary"
	"errors"
	"fmt"
	"path/filepath"
	"runtime"
	"sort"
	"strings"
	"sync"
	"sync/atomic"
	"testing"
	"time"

	"pgregory.net/rapid"

	bolt "go.etcd.io/bbolt"
	berrors "go.etcd.io/bbolt/errors"

	"go.etcd.io/bbolt/verifh/drv"
)

const c03Rule = "generated concurrent programs: 2-12 goroutines, each a generated list of calls from {Update whose body reads four counters, bumps one and writes a per-transaction log key (or, in 2 of 11 cases, only reads: a committed no-op still consumes its id), ending in commit / returned error / panic; manual Begin(true) + same body + Rollback or Commit; View; Begin(false) + read + Rollback; Batch (MaxBatchSize in {0,1,2,3,1000}, MaxBatchDelay in {0,1,10 ms}); Stats}; optionally one goroutine calls Close at a generated point; GOMAXPROCS in {2,4,16}; hook callbacks yield at every I/O call; built with -race. Oracle (schedule independent): (i) no two write bodies overlap in time; (ii) the committed bodies sorted by tx id carry consecutive ids starting at last-committed+1, each read exactly the state its predecessor produced (serial replay), non-committing bodies leave no trace (final dump = serial replay of the committed ones) ; (iii) every read transaction saw exactly the state of the version its tx id names, and one begun after a commit returned never carries a smaller id than that commit; (iv) the race detector reports nothing; (v) the program terminates within the deadline - also when an OnCommit handler starts the next writer; commit handlers run only for committed transactions; after Close every call returns ErrDatabaseNotOpen. Non-trivial = at least one Begin(true) had to wait for another write body, and a non-committing body ran between two committing ones. Distinct = SHA-256 of the program."

type c03Call struct {
	Kind    string `json:"kind"`    // update manual view beginro batch stats close
	Outcome string `json:"outcome"` // commit error panic rollback
	Counter int    `json:"counter"`
	Delta   uint64 `json:"delta"`
}

type c03Prog struct {
	Routines   [][]c03Call `json:"routines"`
	GoMaxProcs int         `json:"gomaxprocs"`
	Freelist   string      `json:"freelist"`
	BatchSize  int         `json:"max_batch_size"`
	DelayMs    int         `json:"max_batch_delay_ms"`
}

type c03Body struct {
	seq       int64
	txid      int
	reads     [4]uint64
	counter   int
	newVal    uint64
	committed bool
	noop      bool     // the body only read (Delta 0): committing it still consumes its transaction id
	tx        *bolt.Tx // identity of the transaction (several Batch functions may share one)
}

type c03Read struct {
	txid  int
	reads [4]uint64
}

var errC03 = errors.New("c03: body fails on purpose")

func c03Run(p c03Prog) (v *drv.Violation, waited bool, mixed bool) {
	old := runtime.GOMAXPROCS(p.GoMaxProcs)
	defer runtime.GOMAXPROCS(old)
	dir := drv.ShmDir("c03")
	defer removeAll(dir)
	path := filepath.Join(dir, "db")
	opts := &bolt.Options{}
	if p.Freelist == "hashmap" {
		opts.FreelistType = bolt.FreelistMapType
	}
	db, err := bolt.Open(path, 0600, opts)
	if err != nil {
		return drv.Violf("open: %v", err), false, false
	}
	drv.SetDefaultOnEvent(func(ev *bolt.VerifEvent) error { runtime.Gosched(); return nil })
	defer drv.SetDefaultOnEvent(nil)
	db.MaxBatchDelay = time.Duration(p.DelayMs) * time.Millisecond
	db.MaxBatchSize = p.BatchSize
	if err := db.Update(func(tx *bolt.Tx) error {
		if _, err := tx.CreateBucket([]byte("s")); err != nil {
			return err
		}
		_, err := tx.CreateBucket([]byte("log"))
		return err
	}); err != nil {
		return drv.Violf("setup: %v", err), false, false
	}
	var firstID int
	_ = db.View(func(tx *bolt.Tx) error { firstID = tx.ID(); return nil })

	var (
		mu      sync.Mutex
		bodies  []*c03Body
		readsRO []c03Read
		viol    *drv.Violation
		inBody  atomic.Int32
		seq     atomic.Int64
		wantW   atomic.Int32 // goroutines currently inside or waiting for a write transaction
		waitObs atomic.Bool
		closed  atomic.Bool
		// handlerRuns counts executed OnCommit/OnRollback handlers
		handlerRuns atomic.Int64
	)
	setViol := func(x *drv.Violation) {
		mu.Lock()
		if viol == nil {
			viol = x
		}
		mu.Unlock()
	}
	readCounters := func(tx *bolt.Tx) (out [4]uint64) {
		b := tx.Bucket([]byte("s"))
		for i := 0; i < 4; i++ {
			if v := b.Get([]byte{byte('a' + i)}); v != nil {
				out[i] = binary.BigEndian.Uint64(v)
			}
		}
		return
	}
	body := func(tx *bolt.Tx, c c03Call) *c03Body {
		if inBody.Add(1) != 1 {
			setViol(drv.Violf("two write transaction bodies are running at the same time (tx id %d)", tx.ID()))
		}
		defer inBody.Add(-1)
		bd := &c03Body{seq: seq.Add(1), txid: tx.ID(), counter: c.Counter, tx: tx, noop: c.Delta == 0}
		bd.reads = readCounters(tx)
		bd.newVal = bd.reads[c.Counter] + c.Delta
		if bd.noop {
			runtime.Gosched()
			mu.Lock()
			bodies = append(bodies, bd)
			mu.Unlock()
			return bd
		}
		var buf [8]byte
		binary.BigEndian.PutUint64(buf[:], bd.newVal)
		if err := tx.Bucket([]byte("s")).Put([]byte{byte('a' + c.Counter)}, buf[:]); err != nil {
			setViol(drv.Violf("Put: %v", err))
		}
		var buf2 [8]byte // a value must stay untouched for the life of the transaction: never reuse buf
		binary.BigEndian.PutUint64(buf2[:], uint64(bd.seq))
		if err := tx.Bucket([]byte("log")).Put([]byte(fmt.Sprintf("%016x", tx.ID())), buf2[:]); err != nil {
			setViol(drv.Violf("Put log: %v", err))
		}
		runtime.Gosched()
		mu.Lock()
		bodies = append(bodies, bd)
		mu.Unlock()
		return bd
	}
	// seesCommit: once Commit/Update has returned nil, a transaction begun afterwards must not carry a smaller id
	seesCommit := func(bd *c03Body) {
		tx, err := db.Begin(false)
		if err != nil {
			return // closed concurrently
		}
		id := tx.ID()
		r := c03Read{txid: id, reads: readCounters(tx)}
		_ = tx.Rollback()
		if id < bd.txid {
			setViol(drv.Violf("a read transaction begun after write transaction %d had committed carries tx id %d", bd.txid, id))
		}
		mu.Lock()
		readsRO = append(readsRO, r)
		mu.Unlock()
	}
	okAfterClose := func(err error, what string) {
		if err == nil {
			return
		}
		if closed.Load() && errors.Is(err, berrors.ErrDatabaseNotOpen) {
			return
		}
		if errors.Is(err, errC03) {
			return
		}
		setViol(drv.Violf("%s returned %v", what, err))
	}
	var wg sync.WaitGroup
	for ri, calls := range p.Routines {
		wg.Add(1)
		go func(ri int, calls []c03Call) {
			defer wg.Done()
			for _, c := range calls {
				switch c.Kind {
				case "update":
					var bd *c03Body
					var nested []*c03Body
					if wantW.Add(1) > 1 {
						waitObs.Store(true)
					}
					err := func() (err error) {
						defer func() {
							if r := recover(); r != nil {
								err = errC03
							}
						}()
						return db.Update(func(tx *bolt.Tx) error {
							bd = body(tx, c)
							if c.Counter == 1 {
								// a commit handler runs once, only for a committed transaction, after the transaction has
								// ended - so a handler may itself start the next writer (it must be admitted, with the
								// next id) without dead-locking
								myID := tx.ID()
								tx.OnCommit(func() {
									handlerRuns.Add(1)
									if c.Outcome != "commit" {
										setViol(drv.Violf("the OnCommit handler of write transaction %d ran although its function ended with %s", myID, c.Outcome))
									}
									err := db.Update(func(tx2 *bolt.Tx) error {
										if tx2.ID() <= myID {
											setViol(drv.Violf("a write transaction begun from the OnCommit handler of transaction %d carries id %d", myID, tx2.ID()))
										}
										nb := body(tx2, c03Call{Kind: "update", Outcome: "commit", Counter: 2, Delta: 0})
										nested = append(nested, nb)
										return nil
									})
									if err == nil {
										mu.Lock()
										for _, nb := range nested {
											nb.committed = true
										}
										nested = nil
										mu.Unlock()
									} else {
										okAfterClose(err, "Update from an OnCommit handler")
									}
								})
							}
							switch c.Outcome {
							case "error":
								return errC03
							case "panic":
								panic("c03: body panics on purpose")
							}
							return nil
						})
					}()
					wantW.Add(-1)
					if err == nil && bd != nil {
						mu.Lock()
						bd.committed = true
						mu.Unlock()
						if c.Counter == 0 {
							seesCommit(bd)
						}
					}
					if err == nil && c.Outcome != "commit" {
						setViol(drv.Violf("Update returned nil although its function %s", c.Outcome))
					}
					okAfterClose(err, "Update")
				case "manual":
					if wantW.Add(1) > 1 {
						waitObs.Store(true)
					}
					tx, err := db.Begin(true)
					if err != nil {
						wantW.Add(-1)
						okAfterClose(err, "Begin(true)")
						continue
					}
					bd := body(tx, c)
					if c.Outcome == "commit" {
						if err := tx.Commit(); err != nil {
							setViol(drv.Violf("Commit: %v", err))
						} else {
							mu.Lock()
							bd.committed = true
							mu.Unlock()
							if c.Counter == 0 {
								seesCommit(bd)
							}
						}
					} else if err := tx.Rollback(); err != nil {
						setViol(drv.Violf("Rollback: %v", err))
					}
					wantW.Add(-1)
				case "view":
					err := db.View(func(tx *bolt.Tx) error {
						r := c03Read{txid: tx.ID(), reads: readCounters(tx)}
						runtime.Gosched()
						if again := readCounters(tx); again != r.reads {
							setViol(drv.Violf("a View (tx id %d) read different values at two moments: %v then %v", tx.ID(), r.reads, again))
						}
						mu.Lock()
						readsRO = append(readsRO, r)
						mu.Unlock()
						return nil
					})
					okAfterClose(err, "View")
				case "beginro":
					tx, err := db.Begin(false)
					if err != nil {
						okAfterClose(err, "Begin(false)")
						continue
					}
					r := c03Read{txid: tx.ID(), reads: readCounters(tx)}
					mu.Lock()
					readsRO = append(readsRO, r)
					mu.Unlock()
					if err := tx.Rollback(); err != nil {
						setViol(drv.Violf("read tx Rollback: %v", err))
					}
				case "batch":
					var last *c03Body
					if wantW.Add(1) > 1 {
						waitObs.Store(true)
					}
					err := db.Batch(func(tx *bolt.Tx) error {
						last = body(tx, c)
						return nil
					})
					wantW.Add(-1)
					if err == nil && last != nil {
						mu.Lock()
						last.committed = true
						mu.Unlock()
					}
					okAfterClose(err, "Batch")
				case "stats":
					s := db.Stats()
					if s.TxN < 0 || s.OpenTxN < 0 {
						setViol(drv.Violf("Stats: negative counters %+v", s))
					}
				case "close":
					closed.Store(true)
					if err := db.Close(); err != nil {
						setViol(drv.Violf("Close: %v", err))
					}
				}
			}
		}(ri, calls)
	}
	done := make(chan struct{})
	go func() { wg.Wait(); close(done) }()
	if h, why := drv.WaitOrHang(done); h {
		return drv.Violf("the program did not terminate within the deadline (lost wake-up or leaked lock): %s", why), false, false
	}
	if viol != nil {
		return viol, false, false
	}
	_ = db.Close()
	// ---- serial replay
	var committed []*c03Body
	for _, b := range bodies {
		if b.committed {
			committed = append(committed, b)
		}
	}
	sort.Slice(committed, func(i, j int) bool {
		if committed[i].txid != committed[j].txid {
			return committed[i].txid < committed[j].txid
		}
		return committed[i].seq < committed[j].seq
	})
	state := [4]uint64{}
	versions := map[int][4]uint64{firstID: state}
	next := firstID + 1
	for i, b := range committed {
		if i > 0 && committed[i-1].txid == b.txid {
			// several Batch functions in one transaction
			if committed[i-1].tx != b.tx {
				return drv.Violf("two different committed write transactions carry the same id %d", b.txid), false, false
			}
		} else {
			if b.txid != next {
				return drv.Violf("committed write transactions do not carry consecutive ids: expected %d, got %d (first id %d)", next, b.txid, firstID), false, false
			}
			next++
		}
		if b.reads != state {
			var near []string
			for _, x := range bodies {
				if x.txid >= b.txid-1 && x.txid <= b.txid {
					near = append(near, fmt.Sprintf("{seq %d tx %d reads %v c%d=%d committed=%v}", x.seq, x.txid, x.reads, x.counter, x.newVal, x.committed))
				}
			}
			return drv.Violf("write transaction %d read %v, but the transactions committed before it produced %v; bodies with the two tx ids: %v", b.txid, b.reads, state, near), false, false
		}
		state[b.counter] = b.newVal
		versions[b.txid] = state
	}
	// non-committing bodies between committing ones?
	sort.Slice(bodies, func(i, j int) bool { return bodies[i].seq < bodies[j].seq })
	seenC := false
	pendingN := false
	for _, b := range bodies {
		if b.committed {
			if seenC && pendingN {
				mixed = true
			}
			seenC = true
			pendingN = false
		} else if seenC {
			pendingN = true
		}
	}
	for _, r := range readsRO {
		want, ok := versions[r.txid]
		if !ok {
			return drv.Violf("a read transaction carried tx id %d, which no committed write transaction has", r.txid), false, false
		}
		if want != r.reads {
			return drv.Violf("a read transaction with tx id %d saw %v, version %d is %v", r.txid, r.reads, r.txid, want), false, false
		}
	}
	// final state on disk
	db2, err := bolt.Open(path, 0600, &bolt.Options{ReadOnly: true})
	if err != nil {
		return drv.Violf("reopen: %v", err), false, false
	}
	defer db2.Close()
	var final [4]uint64
	logN := 0
	var finalID int
	_ = db2.View(func(tx *bolt.Tx) error {
		final = readCounters(tx)
		finalID = tx.ID()
		return tx.Bucket([]byte("log")).ForEach(func(k, v []byte) error { logN++; return nil })
	})
	if final != state {
		return drv.Violf("final state %v differs from the serial replay of the committed transactions %v", final, state), false, false
	}
	distinctTx := map[int]bool{}
	for _, b := range committed {
		if !b.noop {
			distinctTx[b.txid] = true
		}
	}
	if logN != len(distinctTx) {
		return drv.Violf("the log bucket holds %d entries, %d write transactions committed (an uncommitted transaction left a trace, or a committed one was lost)", logN, len(distinctTx)), false, false
	}
	if finalID != next-1 {
		return drv.Violf("the newest tx id on disk is %d, the last committed one was %d", finalID, next-1), false, false
	}
	return nil, waitObs.Load(), mixed
}

func TestC03(t *testing.T) {
	col := newCollector("C03", c03Rule)
	defer col.Flush()
	rapid.Check(t, func(rt *rapid.T) {
		p := c03Prog{GoMaxProcs: rapid.SampledFrom([]int{2, 4, 16}).Draw(rt, "gomaxprocs"), Freelist: rapid.SampledFrom([]string{"array", "hashmap"}).Draw(rt, "freelist"),
			BatchSize: rapid.SampledFrom([]int{0, 1, 2, 3, 1000}).Draw(rt, "batchsize"), DelayMs: rapid.SampledFrom([]int{0, 0, 1, 10}).Draw(rt, "delay")}
		nr := rapid.IntRange(2, 12).Draw(rt, "routines")
		withClose := rapid.IntRange(0, 3).Draw(rt, "close") == 0
		for r := 0; r < nr; r++ {
			var calls []c03Call
			for k, n := 0, rapid.IntRange(1, 30).Draw(rt, "ncalls"); k < n; k++ {
				c := c03Call{Kind: rapid.SampledFrom([]string{"update", "update", "update", "manual", "view", "view", "beginro", "batch", "stats"}).Draw(rt, "kind")}
				switch c.Kind {
				case "update":
					c.Outcome = rapid.SampledFrom([]string{"commit", "commit", "error", "panic"}).Draw(rt, "outcome")
				case "manual":
					c.Outcome = rapid.SampledFrom([]string{"commit", "rollback"}).Draw(rt, "outcome")
				}
				c.Counter = rapid.IntRange(0, 3).Draw(rt, "counter")
				c.Delta = uint64(rapid.SampledFrom([]int{0, 0, 1, 2, 3, 4, 5, 6, 7, 8, 9}).Draw(rt, "delta")) // 0: the body only reads
				calls = append(calls, c)
			}
			if withClose && r == 0 {
				at := rapid.IntRange(0, len(calls)).Draw(rt, "closeat")
				calls = append(calls[:at], append([]c03Call{{Kind: "close"}}, calls[at:]...)...)
			}
			p.Routines = append(p.Routines, calls)
		}
		v, waited, mixed := c03Run(p)
		if v != nil {
			if strings.Contains(v.Msg, "within") {
				failNoShrink(replayDoc{Property: "C03", Kind: "concurrent-program", Extra: mustJSON(p)}, v)
			}
			failCase(rt, replayDoc{Property: "C03", Kind: "concurrent-program", Extra: mustJSON(p)}, v)
		}
		labels := map[string]int{}
		if waited {
			labels["writer-waited"] = 1
		}
		if mixed {
			labels["noncommitting-between-committing"] = 1
		}
		if withClose {
			labels["with-close"] = 1
		}
		col.Add(p, waited && mixed, labels)
	})
}

func replayC03(t *testing.T, d replayDoc) *drv.Violation {
	var p c03Prog
	_ = jsonUnmarshal(d.Extra, &p)
	for i := 0; i < 30; i++ {
		if v, _, _ := c03Run(p); v != nil {
			return v
		}
	}
	return nil
}

func init() { replayFuncs["C03"] = replayC03 }

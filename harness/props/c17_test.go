package props

import (
	"bufio"
	"crypto/sha256"
	"errors"
	"fmt"
	"io"
	"os"
	"os/exec"
	"path/filepath"
	"runtime/debug"
	"sort"
	"strings"
	"sync"
	"testing"
	"time"

	"pgregory.net/rapid"

	bolt "go.etcd.io/bbolt"
	berrors "go.etcd.io/bbolt/errors"

	"go.etcd.io/bbolt/verifh/drv"
	"go.etcd.io/bbolt/verifh/gen"
	"go.etcd.io/bbolt/verifh/model"
)

const c17Rule = "(a) generated programs of 2-8 open attempts {read-write, read-only} x {no timeout, 100 ms timeout} x {this process, a helper process (the test binary re-executed, driven over a pipe)} with generated closes in between; a model of the lock (read-write excludes everything, read-only excludes read-write) predicts for each attempt: succeeds promptly / ErrTimeout / still blocked after 400 ms and succeeds once the conflicting holders have closed. (b) generated programs of API calls against a database opened read-only, with and without preloaded freelist, on files with and without persisted freelist: every read op of the C04 generator, write entry points (Begin(true), Update, Batch must return ErrDatabaseReadOnly), Check, Stats, Sync, WriteTo/CopyFile to another path, Compact as source, and the CLI inspection commands check, dump, page, pages, keys, get, buckets, stats, inspect, info; SHA-256 and length of the file must be unchanged. (c) every key and value slice a read-only transaction returns (read-only and read-write databases) is written to: the write must either fault (SetPanicOnFault) or hit a private copy - the dump and the file hash stay unchanged. Non-trivial: (a) the program contains a conflicting attempt; (b)+(c) at least one faulting slice was observed and at least one write entry point was refused. Distinct = SHA-256 of the program / op log."

// ---------------------------------------------------------------------------------------------
// helper process

// TestC17Helper is the lock-holder process: it executes "open"/"close" commands read from stdin.
func TestC17Helper(t *testing.T) {
	if os.Getenv("VERIF_C17_HELPER") != "1" {
		t.Skip("helper mode only")
	}
	dbs := map[string]*bolt.DB{}
	var mu sync.Mutex
	debug.SetGCPercent(-1) // a leaked descriptor must not be closed (and its lock released) by a finalizer
	out := bufio.NewWriter(os.Stdout)
	say := func(format string, args ...any) {
		mu.Lock()
		fmt.Fprintf(out, format+"\n", args...)
		out.Flush()
		mu.Unlock()
	}
	sc := bufio.NewScanner(os.Stdin)
	for sc.Scan() {
		f := strings.Fields(sc.Text())
		if len(f) == 0 {
			continue
		}
		switch f[0] {
		case "open": // open <id> <rw|ro> <timeoutms> <path> [bad]
			id, mode, path := f[1], f[2], f[4]
			var to int
			fmt.Sscanf(f[3], "%d", &to)
			bad := len(f) > 5 && f[5] == "bad"
			go func() {
				start := time.Now()
				db, err := bolt.Open(path, 0600, c17Options(mode, to, bad))
				ms := time.Since(start).Milliseconds()
				switch {
				case err == nil:
					mu.Lock()
					dbs[id] = db
					mu.Unlock()
					say("res %s ok %d", id, ms)
				case errors.Is(err, berrors.ErrTimeout):
					say("res %s timeout %d", id, ms)
				default:
					say("res %s err %d %v", id, ms, err)
				}
			}()
		case "close":
			mu.Lock()
			db := dbs[f[1]]
			delete(dbs, f[1])
			mu.Unlock()
			if db != nil {
				_ = db.Close()
			}
			say("closed %s", f[1])
		case "quit":
			return
		}
	}
}

// c17Options: a "bad" attempt asks for an initial map size beyond the maximum, so Open fails AFTER it has
// taken the file lock; such an attempt must release the lock again before it returns.
func c17Options(mode string, timeoutMs int, bad bool) *bolt.Options {
	o := &bolt.Options{ReadOnly: mode == "ro", Timeout: time.Duration(timeoutMs) * time.Millisecond}
	if bad {
		o.InitialMmapSize = 1 << 49
	}
	return o
}

type c17Helper struct {
	cmd   *exec.Cmd
	in    io.WriteCloser
	lines chan string
}

func startHelper() (*c17Helper, error) {
	cmd := exec.Command(os.Args[0], "-test.run", "^TestC17Helper$")
	cmd.Env = append(os.Environ(), "VERIF_C17_HELPER=1")
	in, err := cmd.StdinPipe()
	if err != nil {
		return nil, err
	}
	outp, err := cmd.StdoutPipe()
	if err != nil {
		return nil, err
	}
	if err := cmd.Start(); err != nil {
		return nil, err
	}
	h := &c17Helper{cmd: cmd, in: in, lines: make(chan string, 64)}
	go func() {
		sc := bufio.NewScanner(outp)
		for sc.Scan() {
			h.lines <- sc.Text()
		}
		close(h.lines)
	}()
	return h, nil
}

func (h *c17Helper) stop() {
	fmt.Fprintln(h.in, "quit")
	h.in.Close()
	done := make(chan struct{})
	go func() { h.cmd.Wait(); close(done) }()
	select {
	case <-done:
	case <-time.After(3 * time.Second):
		h.cmd.Process.Kill()
	}
}

// c17Patience bounds calls that must return "promptly"; generous, so that machine load cannot fake a violation.
const c17Patience = 90 * time.Second

// ---------------------------------------------------------------------------------------------
// (a) lock programs

type c17Step struct {
	Op      string `json:"op"`            // open close
	Actor   string `json:"actor"`         // self helper
	Mode    string `json:"mode"`          // rw ro
	Timeout int    `json:"timeout"`       // ms, 0 = none
	Holder  int    `json:"holder"`        // close: index into the current holder list
	Bad     bool   `json:"bad,omitempty"` // the attempt fails after taking the lock (invalid initial map size)
}

type c17Holder struct {
	id    string
	actor string
	mode  string
	db    *bolt.DB
}

type c17Res struct {
	id   string
	kind string // ok timeout err
	ms   int64
	db   *bolt.DB
	msg  string
}

func c17LockProgram(steps []c17Step) (v *drv.Violation, conflicts int) {
	defer debug.SetGCPercent(debug.SetGCPercent(-1)) // see TestC17Helper
	dir := drv.ShmDir("c17")
	defer removeAll(dir)
	path := filepath.Join(dir, "db")
	db0, err := bolt.Open(path, 0600, nil)
	if err != nil {
		return drv.Violf("create: %v", err), 0
	}
	_ = db0.Close()
	h, err := startHelper()
	if err != nil {
		return drv.Violf("harness: cannot start helper process: %v", err), 0
	}
	defer h.stop()
	selfRes := make(chan c17Res, 16)
	var holders []c17Holder
	defer func() {
		for _, hd := range holders {
			if hd.db != nil {
				hd.db.Close()
			}
		}
	}()
	nextID := 0
	var stash []string // result lines of the helper that arrived while waiting for something else
	closeHolder := func(i int) *drv.Violation {
		hd := holders[i]
		holders = append(holders[:i], holders[i+1:]...)
		if hd.actor == "self" {
			if err := hd.db.Close(); err != nil {
				return drv.Violf("Close: %v", err)
			}
			return nil
		}
		fmt.Fprintf(h.in, "close %s\n", hd.id)
		for {
			select {
			case l := <-h.lines:
				if strings.HasPrefix(l, "res ") {
					// a blocked open of the helper got the lock the moment it was released: its result can
					// overtake the "closed" line; keep it for wait()
					stash = append(stash, l)
					continue
				}
				if !strings.HasPrefix(l, "closed "+hd.id) {
					return drv.Violf("harness: helper answered %q to close", l)
				}
				return nil
			case <-time.After(c17Patience):
				return drv.Violf("helper process: Close did not return within the patience limit")
			}
		}
	}
	wait := func(actor, id string, d time.Duration) (c17Res, bool) {
		if actor == "self" {
			select {
			case r := <-selfRes:
				return r, true
			case <-time.After(d):
				return c17Res{}, false
			}
		}
		var l string
		ok := true
		if len(stash) > 0 {
			l, stash = stash[0], stash[1:]
		} else {
			select {
			case l, ok = <-h.lines:
			case <-time.After(d):
				return c17Res{}, false
			}
		}
		{
			if !ok {
				return c17Res{kind: "err", msg: "helper died"}, true
			}
			f := strings.Fields(l)
			if len(f) >= 4 && f[0] == "res" && f[1] == id {
				var ms int64
				fmt.Sscanf(f[3], "%d", &ms)
				return c17Res{id: id, kind: f[2], ms: ms, msg: strings.Join(f[4:], " ")}, true
			}
			return c17Res{kind: "err", msg: "unexpected helper line: " + l}, true
		}
	}
	for si, st := range steps {
		if st.Op == "close" {
			if len(holders) == 0 {
				continue
			}
			if v := closeHolder(st.Holder % len(holders)); v != nil {
				return v, conflicts
			}
			continue
		}
		nextID++
		id := fmt.Sprintf("h%d", nextID)
		// model: which holders conflict?
		var conflicting []int
		for i, hd := range holders {
			if st.Mode == "rw" || hd.mode == "rw" {
				conflicting = append(conflicting, i)
			}
		}
		if st.Actor == "self" {
			go func(st c17Step) {
				start := time.Now()
				db, err := bolt.Open(path, 0600, c17Options(st.Mode, st.Timeout, st.Bad))
				r := c17Res{id: id, ms: time.Since(start).Milliseconds(), db: db}
				switch {
				case err == nil:
					r.kind = "ok"
				case errors.Is(err, berrors.ErrTimeout):
					r.kind = "timeout"
				default:
					r.kind, r.msg = "err", err.Error()
				}
				selfRes <- r
			}(st)
		} else {
			bad := ""
			if st.Bad {
				bad = " bad"
			}
			fmt.Fprintf(h.in, "open %s %s %d %s%s\n", id, st.Mode, st.Timeout, path, bad)
		}
		desc := fmt.Sprintf("step %d: %s open by %s (timeout %d ms) with holders %v", si, st.Mode, st.Actor, st.Timeout, holderDesc(holders))
		if st.Bad {
			desc = fmt.Sprintf("step %d: %s open by %s with an invalid initial map size (must fail and hold nothing; timeout %d ms) with holders %v", si, st.Mode, st.Actor, st.Timeout, holderDesc(holders))
		}
		// accept registers a successful open as holder, or checks that a bad attempt failed (and holds nothing)
		accept := func(r c17Res) *drv.Violation {
			if st.Bad {
				if r.kind == "ok" {
					if r.db != nil {
						r.db.Close()
					}
					return drv.Violf("%s: the open succeeded", desc)
				}
				if r.kind != "err" {
					return drv.Violf("%s: expected an error about the map size, got %s %s", desc, r.kind, r.msg)
				}
				return nil
			}
			if r.kind != "ok" {
				return drv.Violf("%s: the open did not succeed (result %q %s)", desc, r.kind, r.msg)
			}
			holders = append(holders, c17Holder{id: id, actor: st.Actor, mode: st.Mode, db: r.db})
			return nil
		}
		switch {
		case len(conflicting) == 0:
			r, got := wait(st.Actor, id, c17Patience)
			if !got {
				return drv.Violf("%s: no lock conflict, yet the open did not return promptly", desc), conflicts
			}
			if v := accept(r); v != nil {
				return drv.Violf("%s (no lock conflict)", v.Msg), conflicts
			}
		case st.Timeout > 0:
			conflicts++
			r, got := wait(st.Actor, id, c17Patience)
			if !got {
				return drv.Violf("%s: conflicting open with a timeout did not return within the patience limit", desc), conflicts
			}
			if r.kind == "ok" {
				if r.db != nil {
					r.db.Close()
				}
				return drv.Violf("%s: the open SUCCEEDED although a conflicting lock is held", desc), conflicts
			}
			if r.kind != "timeout" {
				return drv.Violf("%s: expected ErrTimeout, got %s %s", desc, r.kind, r.msg), conflicts
			}
		default:
			conflicts++
			if r, got := wait(st.Actor, id, 400*time.Millisecond); got {
				if r.db != nil {
					r.db.Close()
				}
				return drv.Violf("%s: the open returned (%s %s) although a conflicting lock is held and no timeout was given", desc, r.kind, r.msg), conflicts
			}
			// release the conflicting holders: now it must get the lock
			for k := len(conflicting) - 1; k >= 0; k-- {
				if v := closeHolder(conflicting[k]); v != nil {
					return v, conflicts
				}
			}
			r, got := wait(st.Actor, id, c17Patience)
			if !got {
				return drv.Violf("%s: has not returned although every conflicting holder closed (closing must release the lock)", desc), conflicts
			}
			if v := accept(r); v != nil {
				return drv.Violf("%s (after every conflicting holder closed)", v.Msg), conflicts
			}
		}
	}
	return nil, conflicts
}

func holderDesc(hs []c17Holder) []string {
	var out []string
	for _, h := range hs {
		out = append(out, h.actor+":"+h.mode)
	}
	return out
}

func TestC17Locks(t *testing.T) {
	col := newCollector("C17", c17Rule)
	defer col.Flush()
	rapid.Check(t, func(rt *rapid.T) {
		var steps []c17Step
		opens := 0
		n := rapid.IntRange(2, 8).Draw(rt, "nsteps")
		for opens < n {
			if opens > 0 && rapid.IntRange(0, 3).Draw(rt, "close") == 0 {
				steps = append(steps, c17Step{Op: "close", Holder: rapid.IntRange(0, 7).Draw(rt, "holder")})
				continue
			}
			steps = append(steps, c17Step{Op: "open",
				Actor:   rapid.SampledFrom([]string{"self", "helper"}).Draw(rt, "actor"),
				Mode:    rapid.SampledFrom([]string{"rw", "ro", "ro"}).Draw(rt, "mode"),
				Timeout: rapid.SampledFrom([]int{0, 100, 100}).Draw(rt, "timeout"),
				Bad:     rapid.IntRange(0, 4).Draw(rt, "bad") == 0})
			opens++
		}
		v, conflicts := c17LockProgram(steps)
		if v != nil {
			failNoShrinkOrCase(rt, replayDoc{Property: "C17", Kind: "lock-program", Extra: mustJSON(steps)}, v)
		}
		nbad := 0
		for _, st := range steps {
			if st.Bad {
				nbad++
			}
		}
		col.Add(steps, conflicts > 0, map[string]int{"lock-program": 1, "conflict": conflicts, "failing-open-attempt": nbad})
	})
}

func failNoShrinkOrCase(rt *rapid.T, doc replayDoc, v *drv.Violation) {
	// lock programs cost up to seconds per run: do not shrink
	failNoShrink(doc, v)
}

// ---------------------------------------------------------------------------------------------
// (b) + (c): read-only databases and returned memory

func fileSum(path string) (string, int64) {
	b, err := os.ReadFile(path)
	if err != nil {
		return "unreadable: " + err.Error(), -1
	}
	return fmt.Sprintf("%x", sha256.Sum256(b)), int64(len(b))
}

// pokeSlices writes into every key/value slice a read transaction returns.
func pokeSlices(tx *bolt.Tx) (faults, copies int, v *drv.Violation) {
	debug.SetPanicOnFault(true)
	poke := func(b []byte) {
		if len(b) == 0 {
			return
		}
		func() {
			defer func() {
				if r := recover(); r != nil {
					faults++
				}
			}()
			b[0] ^= 0xff
			copies++ // the write went through: must have been a private copy (verified by the caller)
		}()
	}
	var walk func(b *bolt.Bucket)
	walk = func(b *bolt.Bucket) {
		c := b.Cursor()
		type kv struct{ k, v []byte }
		var items []kv
		for k, val := c.First(); k != nil; k, val = c.Next() {
			items = append(items, kv{k, val})
		}
		for _, it := range items {
			name := append([]byte(nil), it.k...)
			if it.v == nil {
				if sb := b.Bucket(name); sb != nil {
					walk(sb)
				}
			} else {
				poke(it.v)
				poke(b.Get(name))
			}
			poke(it.k)
		}
	}
	_ = tx.ForEach(func(name []byte, b *bolt.Bucket) error {
		walk(b)
		return nil
	})
	return
}

type c17Doc struct {
	Preload bool `json:"preload"`
}

func c17ReadOnlyProgram(rt *rapid.T, log []drv.Op, preload bool, col *collector) *drv.Violation {
	// rebuild the base file
	e := drv.NewEnv("c17b")
	defer e.Cleanup()
	e.SkipDumpAfter = true
	for _, op := range log {
		if v := e.Apply(op); v != nil {
			return v
		}
	}
	finishHistory(e, func(v *drv.Violation) {})
	if e.DB == nil {
		return nil
	}
	want := e.Committed
	// (c) on the read-write database
	var f1, c1 int
	var pv *drv.Violation
	_ = e.DB.View(func(tx *bolt.Tx) error { f1, c1, pv = pokeSlices(tx); return nil })
	if pv != nil {
		return pv
	}
	if v := e.CheckCommitted("after writing into slices returned by a read transaction (read-write database)"); v != nil {
		return v
	}
	lastOpts := e.Opts
	_ = e.CloseDB()
	sum0, len0 := fileSum(e.Path)
	unchanged := func(after string) *drv.Violation {
		s, l := fileSum(e.Path)
		if s != sum0 || l != len0 {
			return drv.Violf("after %s on a database opened read-only the file changed (length %d -> %d, sha256 %s -> %s)", after, len0, l, sum0[:12], s[:12])
		}
		return nil
	}
	ro := drv.OpenOpts{ReadOnly: true, PreLoadFreelist: preload, Freelist: lastOpts.Freelist}
	if err := e.Open(ro); err != nil {
		return drv.Violf("read-only open: %v", err)
	}
	if v := e.CheckCommitted("read-only open"); v != nil {
		return v
	}
	if !e.DB.IsReadOnly() {
		return drv.Violf("IsReadOnly() is false on a database opened read-only")
	}
	refused := 0
	// write entry points
	if tx, err := e.DB.Begin(true); !errors.Is(err, berrors.ErrDatabaseReadOnly) {
		if tx != nil {
			tx.Rollback()
		}
		return drv.Violf("Begin(true) on a read-only database returned %v, want ErrDatabaseReadOnly", err)
	}
	refused++
	called := false
	if err := e.DB.Update(func(tx *bolt.Tx) error { called = true; return nil }); !errors.Is(err, berrors.ErrDatabaseReadOnly) || called {
		return drv.Violf("Update on a read-only database: err=%v, function called=%v", err, called)
	}
	refused++
	if err := e.DB.Batch(func(tx *bolt.Tx) error { called = true; return nil }); !errors.Is(err, berrors.ErrDatabaseReadOnly) || called {
		return drv.Violf("Batch on a read-only database: err=%v, function called=%v", err, called)
	}
	refused++
	if v := unchanged("Begin(true)/Update/Batch"); v != nil {
		return v
	}
	// generated read (and refused write) ops through a read transaction
	if v := e.Apply(drv.Op{Op: drv.OpBeginRO, Tx: 1}); v != nil {
		return v
	}
	cfg := gen.DefaultCfg()
	nops := 0
	if rt != nil {
		nops = rapid.IntRange(5, 40).Draw(rt, "roops")
	}
	for i := 0; i < nops; i++ {
		var op drv.Op
		if rapid.IntRange(0, 4).Draw(rt, "w") == 0 {
			op = genBucketOp(rt, e, cfg, 1, false)
		} else {
			op = genBucketOp(rt, e, cfg, 1, true)
		}
		if v := e.Apply(op); v != nil {
			return v
		}
	}
	// (c) on the read-only database
	f2, c2, pv2 := pokeSlices(e.ROTx(1))
	if pv2 != nil {
		return pv2
	}
	if v := e.Apply(drv.Op{Op: drv.OpDumpRO, Tx: 1}); v != nil {
		return drv.Violf("after writing into returned slices: %s", v.Msg)
	}
	if v := unchanged("writing into slices returned by a read transaction"); v != nil {
		return v
	}
	// Check, Stats, Sync, backups, compaction as source
	for range e.ROTx(1).Check() {
	}
	_ = e.DB.Stats()
	_ = e.DB.Sync()
	bk := filepath.Join(e.Dir, "backup.db")
	if err := e.ROTx(1).CopyFile(bk, 0o600); err != nil {
		return drv.Violf("CopyFile from a read-only database: %v", err)
	}
	os.Remove(bk)
	var sink countWriter
	if _, err := e.ROTx(1).WriteTo(&sink); err != nil {
		return drv.Violf("WriteTo from a read-only database: %v", err)
	}
	if v := e.Apply(drv.Op{Op: drv.OpCloseRO, Tx: 1}); v != nil {
		return v
	}
	dstp := filepath.Join(e.Dir, "compact.db")
	if dst, err := bolt.Open(dstp, 0600, nil); err == nil {
		cerr := bolt.Compact(dst, e.DB, 4096)
		dst.Close()
		os.Remove(dstp)
		if cerr != nil {
			return drv.Violf("Compact with a read-only source: %v", cerr)
		}
	}
	if v := unchanged("Check/Stats/Sync/CopyFile/WriteTo/Compact"); v != nil {
		return v
	}
	// CLI inspection commands (shared locks coexist with this process's read-only handle)
	firstBucket, firstKey := "", ""
	for _, n := range want.SubNames() {
		firstBucket = n
		for _, k := range want.Sub[n].KeyNames() {
			firstKey = k
			break
		}
		break
	}
	cmds := [][]string{{"check", e.Path}, {"dump", e.Path, "0", "2"}, {"page", e.Path, "0", "1", "3"}, {"pages", e.Path}, {"buckets", e.Path}, {"stats", e.Path}, {"inspect", e.Path}, {"info", e.Path}}
	if isPrintable(firstBucket) && firstBucket != "" {
		cmds = append(cmds, []string{"keys", e.Path, firstBucket})
		if isPrintable(firstKey) && firstKey != "" && len(firstKey) < 200 {
			cmds = append(cmds, []string{"get", e.Path, firstBucket, firstKey})
		}
	}
	ncli := 3
	if rt == nil {
		ncli = len(cmds)
	}
	dirBefore := dirListing(e.Dir)
	cliPass := func(phase string) *drv.Violation {
		for i := 0; i < ncli; i++ {
			var c []string
			if rt != nil {
				c = cmds[rapid.IntRange(0, len(cmds)-1).Draw(rt, "cli")]
			} else {
				c = cmds[i]
			}
			code, out := runCLI(c...)
			if code < 0 || code > 1 {
				return drv.Violf("`bbolt %s` (%s) crashed, blocked or could not run (exit %d): %s", c[0], phase, code, lastLine(out))
			}
			if v := unchanged("`bbolt " + c[0] + "` (" + phase + ")"); v != nil {
				return v
			}
			if d := dirListing(e.Dir); d != dirBefore {
				return drv.Violf("`bbolt %s` (%s) created or removed files next to the database: before %q, after %q", c[0], phase, dirBefore, d)
			}
			if col != nil {
				col.Count("cli_"+c[0], 1)
			}
		}
		return nil
	}
	// while this process holds the file open read-only (a command that wanted the exclusive lock would block) ...
	if v := cliPass("while a read-only handle is open"); v != nil {
		return v
	}
	_ = e.CloseDB()
	if v := unchanged("closing the read-only database"); v != nil {
		return v
	}
	// ... and with nobody else holding the file (a command that opened it read-write would succeed - and, on a file
	// without persisted free list, write one)
	if v := cliPass("no other handle open"); v != nil {
		return v
	}
	if col != nil {
		col.Count("slices_faulting", f1+f2)
		col.Count("slices_private_copy", c1+c2)
		col.Count("write_entry_points_refused", refused)
		lab := map[string]int{"readonly-program": 1}
		if preload {
			lab["preload"] = 1
		}
		if lastOpts.NoFreelistSync {
			lab["file-without-persisted-freelist"] = 1
		}
		col.Add(map[string]any{"ops": log, "preload": preload}, f1+f2 > 0 && refused > 0, lab)
	}
	return nil
}

// dirListing returns the sorted names and sizes of the entries of dir.
func dirListing(dir string) string {
	ents, err := os.ReadDir(dir)
	if err != nil {
		return "unreadable: " + err.Error()
	}
	var parts []string
	for _, en := range ents {
		sz := int64(-1)
		if fi, err := en.Info(); err == nil {
			sz = fi.Size()
		}
		parts = append(parts, fmt.Sprintf("%s:%d", en.Name(), sz))
	}
	sort.Strings(parts)
	return strings.Join(parts, ",")
}

type countWriter struct{ n int64 }

func (c *countWriter) Write(p []byte) (int, error) { c.n += int64(len(p)); return len(p), nil }

func isPrintable(s string) bool {
	for _, c := range []byte(s) {
		if c < 0x21 || c > 0x7e || c == '-' {
			return false
		}
	}
	return true
}

func lastLine(s string) string {
	l := strings.Split(strings.TrimSpace(s), "\n")
	return l[len(l)-1]
}

func genBucketOp(rt *rapid.T, e *drv.Env, cfg gen.Cfg, txid int, readOnly bool) drv.Op {
	return gen.BucketOp(rt, e, cfg, txid, e.ROModel(txid), readOnly)
}

func TestC17ReadOnly(t *testing.T) {
	col := newCollector("C17", c17Rule)
	defer col.Flush()
	rapid.Check(t, func(rt *rapid.T) {
		g := drv.NewEnv("c17g")
		g.SkipDumpAfter = true
		var excluded int
		cfg := c04Cfg(&excluded)
		cfg.ErrProbes, cfg.Cursors, cfg.Probes, cfg.Readers = false, false, false, false
		cfg.CommitWeight = 20
		failg := func(v *drv.Violation) {
			drv.SetFailing()
			log := g.Log
			g.Cleanup()
			failCase(rt, replayDoc{Property: "C17", Kind: "history", Ops: log}, v)
		}
		runHistory(rt, g, cfg, nil, failg)
		finishHistory(g, failg)
		drv.SetFailing()
		log := g.Log
		g.Cleanup()
		preload := rapid.Bool().Draw(rt, "preload")
		if v := drv.Guard("read-only program", func() *drv.Violation { return c17ReadOnlyProgram(rt, log, preload, col) }); v != nil {
			failCase(rt, replayDoc{Property: "C17", Kind: "readonly-program", Ops: log, Extra: mustJSON(c17Doc{preload})}, v)
		}
	})
}

func replayC17(t *testing.T, d replayDoc) *drv.Violation {
	switch d.Kind {
	case "lock-program":
		var steps []c17Step
		_ = jsonUnmarshal(d.Extra, &steps)
		v, _ := c17LockProgram(steps)
		return v
	case "readonly-program":
		var doc c17Doc
		_ = jsonUnmarshal(d.Extra, &doc)
		return drv.Guard("read-only program", func() *drv.Violation { return c17ReadOnlyProgram(nil, d.Ops, doc.Preload, nil) })
	}
	return replayHistoryC04(t, d)
}

func init() { replayFuncs["C17"] = replayC17 }

var _ = model.New

package props

import (
	"os"
	"testing"

	"pgregory.net/rapid"

	"go.etcd.io/bbolt/verifh/drv"
	"go.etcd.io/bbolt/verifh/gen"
)

const c18Rule = "generated workloads (growing, churning, large values, bulk ops) under a drawn MaxSize (page-, chunk- and map-aligned and unaligned values from 'smaller than the file' to several MB), page size, InitialMmapSize, NoGrowSync and a lowered AllocSize, with options re-drawn at every reopen. After EVERY operation the file length must be <= max(MaxSize, length when Open returned); a commit may only fail with the size-limit error, after which the dump equals the model, page accounting is exact and further (smaller) transactions, close and reopen work. Non-trivial = the limit was hit at least once and a later commit succeeded. Distinct = SHA-256 of the op log."

var c18MaxSizes = []int{20000, 32768, 50000, 65536, 65537, 100000, 131072, 200000, 262144 + 1, 500000, 1 << 20, 3<<20 + 123, 9 << 20}

func c18Opts(rt *rapid.T, cfg gen.Cfg) drv.OpenOpts {
	o := gen.Opts(rt, cfg)
	o.MaxSize = rapid.SampledFrom(c18MaxSizes).Draw(rt, "maxsize")
	o.AllocSize = rapid.SampledFrom([]int{0, 0, 16384, 65536, 262144}).Draw(rt, "allocsize")
	return o
}

type c18State struct {
	limit int64
}

func TestC18(t *testing.T) {
	col := newCollector("C18", c18Rule)
	defer col.Flush()
	rapid.Check(t, func(rt *rapid.T) {
		e := drv.NewEnv("c18")
		defer e.Cleanup()
		var excluded int
		cfg := c04Cfg(&excluded)
		cfg.ErrProbes, cfg.Cursors, cfg.Probes = false, false, false
		cfg.MaxReaders = 1
		e.AllowCommitErr = true
		fail := func(v *drv.Violation) {
			failCase(rt, replayDoc{Property: "C18", Kind: "history", Ops: e.Log}, v)
		}
		st := c18Install(e)
		// own loop: options of every open carry a drawn MaxSize
		rt.Repeat(map[string]func(*rapid.T){"op": func(rt *rapid.T) {
			op := gen.Next(rt, e, cfg)
			if op.Op == drv.OpOpen || op.Op == drv.OpReopen {
				o := c18Opts(rt, cfg)
				if op.Op == drv.OpReopen {
					o.PageSize = 0
				}
				op.Opts = &o
			}
			if v := e.Apply(op); v != nil {
				fail(v)
			}
			if v := st.afterOp(e, op); v != nil {
				fail(v)
			}
		}})
		finishHistory(e, fail)
		if v := st.afterOp(e, drv.Op{Op: "finish"}); v != nil {
			fail(v)
		}
		col.Add(e.Log, e.Labels["limit-hit-then-commit-ok"] > 0, e.Labels)
	})
}

func fileLen(path string) int64 {
	fi, err := os.Stat(path)
	if err != nil {
		return -1
	}
	return fi.Size()
}

func c18Install(e *drv.Env) *c18State {
	st := &c18State{}
	hit := false
	e.AfterOpen = func(e *drv.Env) *drv.Violation {
		st.limit = int64(e.Opts.MaxSize)
		if l := fileLen(e.Path); l > st.limit {
			st.limit = l
			e.Label("opened-above-limit")
		}
		_, v := checkAccounting(e, "after open")
		return v
	}
	e.AfterCommit = func(e *drv.Env, txid int) *drv.Violation {
		if hit {
			e.Label("limit-hit-then-commit-ok")
		}
		_, v := checkAccounting(e, "after commit")
		return v
	}
	e.AfterFailure = func(e *drv.Env, err error) *drv.Violation {
		if !isMaxSize(err) {
			return drv.Violf("commit failed with %v, only the size-limit error is legal here", err)
		}
		hit = true
		e.Label("limit-hit")
		if v := e.CheckCommitted("after a commit that hit the size limit"); v != nil {
			return v
		}
		_, v := checkAccounting(e, "after a commit that hit the size limit")
		return v
	}
	return st
}

func (st *c18State) afterOp(e *drv.Env, op drv.Op) *drv.Violation {
	if e.DB == nil || e.Opts.MaxSize <= 0 {
		return nil
	}
	if l := fileLen(e.Path); l > st.limit {
		return drv.Violf("after %s: the data file is %d bytes long, limit max(MaxSize=%d, length at open)=%d (page size %d, InitialMmapSize %d, AllocSize %d, map size %d)", op.Op, l, e.Opts.MaxSize, st.limit, e.PageSize, e.Opts.InitialMmapSize, e.Opts.AllocSize, e.DB.VerifMapSize())
	}
	return nil
}

func replayHistoryC18(t *testing.T, d replayDoc) *drv.Violation {
	e := drv.NewEnv("c18r")
	defer e.Cleanup()
	e.AllowCommitErr = true
	st := c18Install(e)
	for _, op := range d.Ops {
		if v := e.Apply(op); v != nil {
			return v
		}
		if v := st.afterOp(e, op); v != nil {
			return v
		}
	}
	var out *drv.Violation
	finishHistory(e, func(v *drv.Violation) {
		if out == nil {
			out = v
		}
	})
	if out == nil {
		out = st.afterOp(e, drv.Op{Op: "finish"})
	}
	return out
}

func init() { replayFuncs["C18"] = replayHistoryC18 }

package drv

import (
	"bytes"
	"errors"
	"fmt"
	"os"
	"path/filepath"
	"runtime/debug"
	"sort"
	"strings"
	"sync"
	"sync/atomic"
	"syscall"
	"time"

	bolt "go.etcd.io/bbolt"
	berrors "go.etcd.io/bbolt/errors"

	"go.etcd.io/bbolt/verifh/model"
	"go.etcd.io/bbolt/verifh/refdec"
)

// IOEvent is one recorded I/O call of the data file.
type IOEvent struct {
	Kind string `json:"k"` // W S T GS RE M   (+ markers: "commit-start", "commit-ok", "commit-err", "open", "close")
	Off  int64  `json:"off,omitempty"`
	Size int    `json:"size,omitempty"`
	Data []byte `json:"-"`
	Tag  int    `json:"tag,omitempty"` // marker payload (e.g. txid)
	// Failed: the call was failed by injection, i.e. it was NOT performed
	Failed bool `json:"failed,omitempty"`
}

type rwState struct {
	tx *bolt.Tx
	id int
	m  *model.Bucket
}

type roState struct {
	tx *bolt.Tx
	id int
	m  *model.Bucket
}

// Env is one database under test together with its reference model.
type Env struct {
	Dir  string
	Path string
	DB   *bolt.DB
	Opts OpenOpts

	PageSize  int
	Committed *model.Bucket
	Versions  map[int]*model.Bucket
	LastTxid  int

	RW *rwState
	RO map[int]*roState

	// configuration
	RecordIO       bool
	AllowCommitErr bool // a failing commit is legal (fault injection / size limit); the model keeps the old state
	FailAt         int  // 1-based index of the I/O event that fails once (0 = none)
	FailKinds      string
	SkipDumpAfter  bool // do not re-dump after every commit (speed)

	// callbacks
	OnEvent      func(e *Env, ev *bolt.VerifEvent) error
	AfterCommit  func(e *Env, txid int) *Violation
	AfterOpen    func(e *Env) *Violation
	AfterFailure func(e *Env, err error) *Violation
	BeforeRemap  func(e *Env)

	// results
	Trace         []IOEvent
	EventN        int
	Failed        *IOEvent // the event that was failed by injection
	FailedInTx    bool
	LastCommitErr error
	LastOpenErr   error
	Log           []Op
	Labels        map[string]int
	RemapClosed   int
	pendingViol   *Violation

	inCommit bool
	sawPanic bool

	// a reader to be begun INSIDE the commit in progress, from the I/O hook (same goroutine: a deterministic
	// "reader begins while the writer stands at this call"): at absolute event index midAt, or at the call that
	// the armed fault fails (midAtFault)
	midSlot    int
	midAt      int
	midAtFault bool
	commitRW   *rwState
	// MidAtFaultSlot > 0: every commit during which an injected fault is armed begins a reader in this slot at
	// the failing call (used by the fault enumeration of C08)
	MidAtFaultSlot int

	// fault bookkeeping
	MetaWrittenInCommit bool     // a meta page write was issued by the commit in progress
	FailedFinalSync     bool     // the injected failure hit the fdatasync after the meta write
	FailedRW            *rwState // the write transaction whose commit failed last
	FailedTxid          int
	ReadersAtFailure    int

	closedTx     *bolt.Tx     // the most recently ended transaction (for ErrTxClosed probes)
	closedBucket *bolt.Bucket // a bucket handle obtained from it before it ended
	closedWasRW  bool

	// WriteTxClosed is true once a write transaction has ended since the last Open (Stats are refreshed then).
	WriteTxClosed bool
}

// failing is set once a violation has been recorded: cleanup must then not wait for anything.
var failing atomic.Bool

// SetFailing marks the process as having recorded a violation.
func SetFailing() { failing.Store(true) }

// panicSeen is set when a panic of the code under test was recovered (locks may be left held).
var panicSeen atomic.Bool

var (
	regMu    sync.Mutex
	registry = map[string]*Env{}
)

// DefaultOnEvent, when set, receives the I/O events of databases that are not driven through an Env
// (used by the concurrent-program checks to yield at every I/O call).
var DefaultOnEvent func(ev *bolt.VerifEvent) error

func installHook() {
	bolt.SetVerifHook(func(ev *bolt.VerifEvent) error {
		regMu.Lock()
		e := registry[ev.Path]
		d := DefaultOnEvent
		regMu.Unlock()
		if e == nil {
			if d != nil {
				return d(ev)
			}
			return nil
		}
		return e.onEvent(ev)
	})
}

// InstallHook (re-)installs the dispatcher.
func InstallHook() { installHook() }

// SetDefaultOnEvent sets DefaultOnEvent under the registry lock.
func SetDefaultOnEvent(f func(ev *bolt.VerifEvent) error) {
	regMu.Lock()
	DefaultOnEvent = f
	regMu.Unlock()
	installHook()
}

// ShmDir returns a fresh directory on tmpfs.
func ShmDir(prefix string) string {
	base := "/dev/shm"
	if st, err := os.Stat(base); err != nil || !st.IsDir() {
		base = os.TempDir()
	}
	d, err := os.MkdirTemp(base, "verif-"+prefix+"-")
	if err != nil {
		panic(err)
	}
	return d
}

func NewEnv(prefix string) *Env {
	installHook()
	debug.SetPanicOnFault(true)
	dir := ShmDir(prefix)
	e := &Env{Dir: dir, Path: filepath.Join(dir, "db"), Committed: model.New(), Versions: map[int]*model.Bucket{}, RO: map[int]*roState{}, Labels: map[string]int{}}
	regMu.Lock()
	registry[e.Path] = e
	regMu.Unlock()
	return e
}

// Cleanup closes everything and removes the directory. It never blocks: if the code under test
// panicked inside a transaction the writer lock is still held and Close would wait forever - the
// handle is then abandoned; if Close blocks without a preceding panic that is reported as a hang.
func (e *Env) Cleanup() {
	done := make(chan struct{})
	go func() {
		defer close(done)
		defer func() { recover() }()
		e.closeAll()
	}()
	if e.sawPanic || failing.Load() {
		select {
		case <-done:
		case <-time.After(2 * time.Second):
		}
	} else if hung, why := WaitOrHang(done); hung {
		fmt.Fprintf(os.Stderr, "HANG in Close/Rollback during cleanup: %s\n", why)
		if HangReport != nil {
			HangReport(e.Log)
		}
	}
	regMu.Lock()
	delete(registry, e.Path)
	regMu.Unlock()
	os.RemoveAll(e.Dir)
}

func (e *Env) closeAll() {
	for id, r := range e.RO {
		_ = r.tx.Rollback()
		delete(e.RO, id)
	}
	if e.RW != nil {
		_ = e.RW.tx.Rollback()
		e.RW = nil
	}
	if e.DB != nil {
		_ = e.DB.Close()
		e.DB = nil
	}
}

func (e *Env) Label(s string) { e.Labels[s]++ }

func (e *Env) onEvent(ev *bolt.VerifEvent) error {
	var kind string
	switch ev.Op {
	case bolt.VerifWriteAt:
		kind = "W"
	case bolt.VerifFdatasync:
		kind = "S"
	case bolt.VerifTruncate:
		kind = "T"
	case bolt.VerifGrowSync:
		kind = "GS"
	case bolt.VerifRemapEnter:
		kind = "RE"
	case bolt.VerifMmap:
		kind = "M"
	}
	if ev.Op == bolt.VerifRemapEnter {
		// A remap needs the mmap write lock; readers opened by this goroutine would deadlock it.
		// Reacting here is a legal schedule: the writer blocks until the readers have finished.
		if len(e.RO) > 0 && e.DB != nil {
			if e.BeforeRemap != nil {
				e.BeforeRemap(e)
			}
			ids := make([]int, 0, len(e.RO))
			for id := range e.RO {
				ids = append(ids, id)
			}
			sort.Ints(ids)
			for _, id := range ids {
				r := e.RO[id]
				if v := e.compareRO(r, "before remap"); v != nil && e.pendingViol == nil {
					e.pendingViol = v
				}
				_ = r.tx.Rollback()
				delete(e.RO, id)
				e.RemapClosed++
			}
		}
		if e.OnEvent != nil {
			return e.OnEvent(e, ev)
		}
		return nil
	}
	e.EventN++
	if ev.Op == bolt.VerifWriteAt && e.inCommit && e.PageSize > 0 && ev.Off < int64(2*e.PageSize) {
		e.MetaWrittenInCommit = true
	}
	if e.RecordIO {
		io := IOEvent{Kind: kind, Off: ev.Off, Size: ev.Size}
		if ev.Op == bolt.VerifWriteAt {
			io.Data = append([]byte(nil), ev.Data...)
		}
		e.Trace = append(e.Trace, io)
	}
	if e.OnEvent != nil {
		if err := e.OnEvent(e, ev); err != nil {
			return err
		}
	}
	fk := kind
	if kind == "S" && e.inCommit && e.MetaWrittenInCommit {
		fk = "SF" // the final sync of a commit (after its meta write) is a kind of its own
	}
	if e.FailAt > 0 && e.EventN == e.FailAt && e.FailKinds != "" && !strings.Contains(","+e.FailKinds, ","+fk+",") {
		e.FailAt++ // not a call of the kinds to fail: the next one is the candidate
	}
	willFail := e.FailAt > 0 && e.EventN == e.FailAt
	if e.inCommit && e.midSlot != 0 && ((e.midAt > 0 && e.EventN >= e.midAt && !e.midAtFault) || (e.midAtFault && willFail)) {
		metaWrite := ev.Op == bolt.VerifWriteAt && e.PageSize > 0 && ev.Off < int64(2*e.PageSize) // issued under metalock
		if (kind == "W" && !metaWrite) || kind == "S" || kind == "T" || kind == "GS" {
			e.beginMidReader(fk)
		}
	}
	if e.FailAt > 0 && e.EventN == e.FailAt {
		e.Failed = &IOEvent{Kind: kind, Off: ev.Off, Size: ev.Size}
		e.FailedInTx = e.inCommit
		e.FailedFinalSync = e.inCommit && kind == "S" && e.MetaWrittenInCommit
		e.ReadersAtFailure = len(e.RO)
		if e.RecordIO && len(e.Trace) > 0 {
			e.Trace[len(e.Trace)-1].Failed = true
		}
		return fmt.Errorf("verif: injected failure of I/O event #%d (%s)", e.EventN, kind)
	}
	return nil
}

// beginMidReader begins a read transaction while Commit stands at an I/O call. Before the meta page write it must
// see the last committed version; after it (the new meta is visible through the map) the committing version.
func (e *Env) beginMidReader(kind string) {
	slot := e.midSlot
	e.midSlot = 0
	if e.DB == nil || e.RO[slot] != nil {
		return
	}
	tx, err := e.DB.Begin(false)
	if err != nil {
		if e.pendingViol == nil {
			e.pendingViol = Violf("Begin(false) while the writer stands at an I/O call (%s) of its commit: %v", kind, err)
		}
		return
	}
	id := tx.ID()
	switch {
	case id == e.LastTxid:
		e.RO[slot] = &roState{tx: tx, id: id, m: e.Committed}
		e.Label("reader-begun-inside-commit-before-meta-write")
	case e.commitRW != nil && id == e.commitRW.id && e.MetaWrittenInCommit:
		e.RO[slot] = &roState{tx: tx, id: id, m: e.commitRW.m}
		e.Label("reader-begun-inside-commit-after-meta-write")
	default:
		_ = tx.Rollback()
		if e.pendingViol == nil {
			e.pendingViol = Violf("a read transaction begun while the writer stood at call %s of the commit of tx %d carries id %d (last committed %d, meta written: %v)", kind, e.commitRW.id, id, e.LastTxid, e.MetaWrittenInCommit)
		}
		return
	}
	if kind == "SF" {
		e.Label("reader-begun-at-final-sync")
	}
	if v := e.compareRO(e.RO[slot], "directly after beginning inside a commit (at "+kind+")"); v != nil && e.pendingViol == nil {
		e.pendingViol = v
	}
}

func (e *Env) Mark(kind string, tag int) {
	if e.RecordIO {
		e.Trace = append(e.Trace, IOEvent{Kind: kind, Tag: tag})
	}
}

func (o OpenOpts) BoltOptions() *bolt.Options {
	bo := &bolt.Options{
		PageSize:        o.PageSize,
		NoFreelistSync:  o.NoFreelistSync,
		NoGrowSync:      o.NoGrowSync,
		InitialMmapSize: o.InitialMmapSize,
		ReadOnly:        o.ReadOnly,
		PreLoadFreelist: o.PreLoadFreelist,
		Mlock:           o.Mlock,
		MaxSize:         o.MaxSize,
		NoStatistics:    o.NoStatistics,
		Timeout:         time.Duration(o.TimeoutMs) * time.Millisecond,
	}
	if o.Logger {
		bo.Logger = silentLogger{}
	}
	if o.MmapPopulate {
		bo.MmapFlags = syscall.MAP_POPULATE
	}
	if o.Freelist == "hashmap" {
		bo.FreelistType = bolt.FreelistMapType
	} else {
		bo.FreelistType = bolt.FreelistArrayType
	}
	return bo
}

// PanicError is returned by Env.Open when bolt.Open panicked: never a legitimate way to refuse a file.
type PanicError struct{ Msg string }

func (p *PanicError) Error() string { return p.Msg }

// IsPanic reports whether err stems from a recovered panic of the code under test.
func IsPanic(err error) bool {
	var p *PanicError
	return errors.As(err, &p)
}

func openRecover(path string, bo *bolt.Options) (db *bolt.DB, err error) {
	defer func() {
		if r := recover(); r != nil {
			panicSeen.Store(true)
			db, err = nil, &PanicError{Msg: fmt.Sprintf("PANIC inside Open: %v\n%s", r, trimStack(debug.Stack()))}
		}
	}()
	return bolt.Open(path, 0600, bo)
}

// silentLogger is a bolt.Logger that discards everything but is not the library's own discard logger, so every API
// call takes its logging branch. Fatal/Panic keep their contract (they are only used on unrecoverable paths).
type silentLogger struct{}

func (silentLogger) Debug(v ...interface{})                   {}
func (silentLogger) Debugf(format string, v ...interface{})   {}
func (silentLogger) Error(v ...interface{})                   {}
func (silentLogger) Errorf(format string, v ...interface{})   {}
func (silentLogger) Info(v ...interface{})                    {}
func (silentLogger) Infof(format string, v ...interface{})    {}
func (silentLogger) Warning(v ...interface{})                 {}
func (silentLogger) Warningf(format string, v ...interface{}) {}
func (silentLogger) Fatal(v ...interface{})                   { panic(fmt.Sprint(v...)) }
func (silentLogger) Fatalf(format string, v ...interface{})   { panic(fmt.Sprintf(format, v...)) }
func (silentLogger) Panic(v ...interface{})                   { panic(fmt.Sprint(v...)) }
func (silentLogger) Panicf(format string, v ...interface{})   { panic(fmt.Sprintf(format, v...)) }

// Open opens the database file with the given options. A panic inside bolt.Open is returned as *PanicError.
func (e *Env) Open(o OpenOpts) error {
	if e.DB != nil {
		return fmt.Errorf("already open")
	}
	e.Mark("open", 0)
	db, err := openRecover(e.Path, o.BoltOptions())
	if IsPanic(err) {
		e.sawPanic = true
	}
	e.LastOpenErr = err
	if err != nil {
		return err
	}
	if o.StrictMode {
		db.StrictMode = true
	}
	if o.AllocSize > 0 {
		db.AllocSize = o.AllocSize
	}
	e.DB = db
	e.Opts = o
	e.WriteTxClosed = false
	e.PageSize = db.Info().PageSize
	// learn the current txid; content is unchanged by Open (a freelist flush bumps the txid only)
	_ = db.View(func(tx *bolt.Tx) error {
		e.LastTxid = tx.ID()
		return nil
	})
	e.Versions[e.LastTxid] = e.Committed
	return nil
}

func (e *Env) CloseDB() error {
	for id, r := range e.RO {
		_ = r.tx.Rollback()
		delete(e.RO, id)
	}
	if e.RW != nil {
		_ = e.RW.tx.Rollback()
		e.RW = nil
	}
	if e.DB == nil {
		return nil
	}
	if watchStart.Load() == 0 { // Close must return: watched also when called outside Apply
		WatchBegin(e)
		defer WatchEnd()
	}
	err := e.DB.Close()
	e.DB = nil
	e.Mark("close", 0)
	return err
}

// ---------------------------------------------------------------------------------------------

func recoverViol(v **Violation, what string) {
	if r := recover(); r != nil {
		panicSeen.Store(true)
		*v = Violf("panic during %s: %v\n%s", what, r, trimStack(debug.Stack()))
	}
}

func trimStack(s []byte) string {
	if len(s) > 3000 {
		s = s[:3000]
	}
	return string(s)
}

func errIn(err error, set ...error) bool {
	for _, s := range set {
		if s == nil && err == nil {
			return true
		}
		if s != nil && err != nil && errors.Is(err, s) {
			return true
		}
	}
	return false
}

func errNames(set []error) string {
	var b bytes.Buffer
	for i, s := range set {
		if i > 0 {
			b.WriteString(" | ")
		}
		if s == nil {
			b.WriteString("nil")
		} else {
			b.WriteString(s.Error())
		}
	}
	return b.String()
}

// handle abstracts over the root (Tx) and nested buckets.
type handle struct {
	tx *bolt.Tx
	b  *bolt.Bucket // nil for the root
}

func (e *Env) resolve(tx *bolt.Tx, path []B) (handle, bool) {
	h := handle{tx: tx}
	for i, p := range path {
		var nb *bolt.Bucket
		if i == 0 {
			nb = tx.Bucket(p.Bytes())
		} else {
			nb = h.b.Bucket(p.Bytes())
		}
		if nb == nil {
			return h, false
		}
		h.b = nb
	}
	return h, true
}

func (h handle) create(k []byte) (*bolt.Bucket, error) {
	if h.b == nil {
		return h.tx.CreateBucket(k)
	}
	return h.b.CreateBucket(k)
}
func (h handle) createINE(k []byte) (*bolt.Bucket, error) {
	if h.b == nil {
		return h.tx.CreateBucketIfNotExists(k)
	}
	return h.b.CreateBucketIfNotExists(k)
}
func (h handle) deleteBucket(k []byte) error {
	if h.b == nil {
		return h.tx.DeleteBucket(k)
	}
	return h.b.DeleteBucket(k)
}
func (h handle) bucket(k []byte) *bolt.Bucket {
	if h.b == nil {
		return h.tx.Bucket(k)
	}
	return h.b.Bucket(k)
}
func (h handle) cursor() *bolt.Cursor {
	if h.b == nil {
		return h.tx.Cursor()
	}
	return h.b.Cursor()
}

// txFor returns the bbolt transaction and model tree an op addresses.
func (e *Env) txFor(op Op) (*bolt.Tx, *model.Bucket, bool) {
	if op.Tx == 0 {
		if e.RW == nil {
			return nil, nil, false
		}
		return e.RW.tx, e.RW.m, true
	}
	r := e.RO[op.Tx]
	if r == nil {
		return nil, nil, false
	}
	return r.tx, r.m, false
}

// Apply executes one op against bbolt and the model and compares every result.
func (e *Env) Apply(op Op) (v *Violation) {
	e.Log = append(e.Log, op)
	WatchBegin(e)
	defer WatchEnd()
	defer recoverViol(&v, op.Op)
	v = e.apply(op)
	if panicSeen.Load() {
		e.sawPanic = true
	}
	if v == nil && e.pendingViol != nil {
		v = e.pendingViol
		e.pendingViol = nil
	}
	return v
}

func (e *Env) apply(op Op) *Violation {
	switch op.Op {
	case OpOpen, OpReopen:
		if op.Op == OpReopen {
			if err := e.CloseDB(); err != nil {
				return Violf("close before reopen: %v", err)
			}
		}
		hadFault := e.Failed != nil
		if err := e.Open(*op.Opts); err != nil {
			// an armed fault that hits one of Open's own I/O calls makes Open fail cleanly; a second Open must work
			if hadFault || e.Failed == nil || !e.AllowCommitErr || IsPanic(err) {
				return Violf("open(%+v): %v", *op.Opts, err)
			}
			e.Label("fault-in-open")
			if err := e.Open(*op.Opts); err != nil {
				return Violf("open(%+v) after an Open that failed on an injected fault: %v", *op.Opts, err)
			}
		}
		e.Label("open")
		if !e.SkipDumpAfter {
			if v := e.CheckCommitted("after open"); v != nil {
				return v
			}
		}
		if e.AfterOpen != nil {
			return e.AfterOpen(e)
		}
		return nil
	case OpClose:
		if err := e.CloseDB(); err != nil {
			return Violf("close: %v", err)
		}
		return nil
	case OpClosedTxUse:
		return e.closedTxProbe()
	case OpTearMeta:
		return e.tearMeta(op)
	case OpArmFault:
		e.FailAt = e.EventN + int(op.U)
		e.Failed = nil
		e.FailKinds = op.Note
		if e.FailKinds == "" {
			e.FailKinds = "W,S,SF,T,GS,"
		}
		e.Label("fault-armed")
		return nil
	case OpBeginRW:
		if e.RW != nil || e.DB == nil {
			return nil
		}
		tx, err := e.DB.Begin(true)
		if e.Opts.ReadOnly {
			if !errors.Is(err, berrors.ErrDatabaseReadOnly) {
				return Violf("Begin(true) on a read-only database: err=%v, want ErrDatabaseReadOnly", err)
			}
			return nil
		}
		if err != nil {
			return Violf("Begin(true): %v", err)
		}
		if tx.ID() != e.LastTxid+1 {
			id := tx.ID()
			_ = tx.Rollback()
			return Violf("write tx id %d, want last committed %d + 1", id, e.LastTxid)
		}
		if !tx.Writable() {
			_ = tx.Rollback()
			return Violf("Begin(true) returned a non-writable tx")
		}
		e.RW = &rwState{tx: tx, id: tx.ID(), m: e.Committed.Clone()}
		return nil
	case OpCommit:
		if e.RW == nil {
			return nil
		}
		rw := e.RW
		e.RW = nil
		e.captureClosed(rw.tx, rw.m, true)
		e.Mark("commit-start", rw.id)
		e.MetaWrittenInCommit = false
		e.commitRW = rw
		e.midSlot, e.midAt, e.midAtFault = 0, 0, false
		if e.MidAtFaultSlot > 0 && e.FaultArmed() && e.RO[e.MidAtFaultSlot] == nil {
			e.midSlot, e.midAtFault = e.MidAtFaultSlot, true
		} else if op.Tx > 0 && e.RO[op.Tx] == nil {
			e.midSlot = op.Tx
			if op.Note == "atfault" {
				e.midAtFault = true
			} else {
				e.midAt = e.EventN + int(op.U)
			}
		}
		e.inCommit = true
		err := rw.tx.Commit()
		e.inCommit = false
		e.midSlot = 0
		e.WriteTxClosed = true
		e.LastCommitErr = err
		if err != nil {
			e.Mark("commit-err", rw.id)
			if !e.AllowCommitErr {
				return Violf("commit of tx %d failed: %v", rw.id, err)
			}
			e.Label("commit-failed")
			e.FailedRW, e.FailedTxid = rw, rw.id
			if e.AfterFailure != nil {
				return e.AfterFailure(e, err)
			}
			return nil
		}
		e.Mark("commit-ok", rw.id)
		e.Committed = rw.m
		e.LastTxid = rw.id
		e.Versions[rw.id] = rw.m
		e.Label("commit")
		if !e.SkipDumpAfter {
			if v := e.CheckCommitted("after commit"); v != nil {
				return v
			}
		}
		if e.AfterCommit != nil {
			return e.AfterCommit(e, rw.id)
		}
		return nil
	case OpRollback:
		if e.RW == nil {
			return nil
		}
		rw := e.RW
		e.RW = nil
		e.captureClosed(rw.tx, rw.m, true)
		if err := rw.tx.Rollback(); err != nil {
			return Violf("rollback: %v", err)
		}
		e.WriteTxClosed = true
		e.Label("rollback")
		if !e.SkipDumpAfter {
			if v := e.CheckCommitted("after rollback"); v != nil {
				return v
			}
		}
		return nil
	case OpProbe:
		if e.RW != nil || e.DB == nil || e.Opts.ReadOnly {
			return nil
		}
		tx, err := e.DB.Begin(true)
		if err != nil {
			return Violf("probe Begin(true): %v", err)
		}
		if err := tx.Rollback(); err != nil {
			return Violf("probe rollback: %v", err)
		}
		e.WriteTxClosed = true
		return nil
	case OpBeginRO:
		if e.DB == nil || e.RO[op.Tx] != nil {
			return nil
		}
		tx, err := e.DB.Begin(false)
		if err != nil {
			return Violf("Begin(false): %v", err)
		}
		if tx.ID() != e.LastTxid {
			_ = tx.Rollback()
			return Violf("read tx id %d, want last committed %d", tx.ID(), e.LastTxid)
		}
		if tx.Writable() {
			return Violf("Begin(false) returned a writable tx")
		}
		e.RO[op.Tx] = &roState{tx: tx, id: tx.ID(), m: e.Committed}
		e.Label("beginro")
		return nil
	case OpCloseRO:
		r := e.RO[op.Tx]
		if r == nil {
			return nil
		}
		v := e.compareRO(r, "at close")
		e.captureClosed(r.tx, r.m, false)
		delete(e.RO, op.Tx)
		if err := r.tx.Rollback(); err != nil && v == nil {
			v = Violf("reader rollback: %v", err)
		}
		return v
	case OpDumpRO:
		r := e.RO[op.Tx]
		if r == nil {
			return nil
		}
		return e.compareRO(r, "dump")
	}
	return e.applyBucketOp(op)
}

func (e *Env) compareRO(r *roState, when string) (v *Violation) {
	defer recoverViol(&v, "reader dump "+when)
	got, dv := DumpTx(r.tx)
	if dv != nil {
		return Violf("reader (txid %d) %s: %s", r.id, when, dv.Msg)
	}
	if d := model.Diff(got, r.m); d != "" {
		return Violf("reader (txid %d) %s differs from its snapshot (bbolt vs model): %s", r.id, when, d)
	}
	if r.tx.ID() != r.id {
		return Violf("reader id changed from %d to %d", r.id, r.tx.ID())
	}
	return nil
}

// CheckCommitted opens a read transaction and compares the full dump with the committed model.
func (e *Env) CheckCommitted(when string) (v *Violation) {
	if e.DB == nil {
		return nil
	}
	defer recoverViol(&v, "dump "+when)
	tx, err := e.DB.Begin(false)
	if err != nil {
		return Violf("%s: Begin(false): %v", when, err)
	}
	defer tx.Rollback()
	if tx.ID() != e.LastTxid {
		return Violf("%s: read tx id %d, want %d", when, tx.ID(), e.LastTxid)
	}
	got, dv := DumpTx(tx)
	if dv != nil {
		return Violf("%s: %s", when, dv.Msg)
	}
	if d := model.Diff(got, e.Committed); d != "" {
		return Violf("%s: database differs from model (bbolt vs model): %s", when, d)
	}
	return nil
}

// TxCheck runs Tx.Check on a fresh read transaction and returns the reported errors.
func (e *Env) TxCheck() (errs []string) {
	defer func() {
		if r := recover(); r != nil {
			panicSeen.Store(true)
			e.sawPanic = true
			errs = append(errs, fmt.Sprintf("PANIC inside Tx.Check: %v", r))
		}
	}()
	tx, err := e.DB.Begin(false)
	if err != nil {
		return []string{"Begin: " + err.Error()}
	}
	defer tx.Rollback()
	for err := range tx.Check() {
		if len(errs) < 20 {
			errs = append(errs, err.Error())
		}
	}
	return errs
}

// FileBytes reads the data file.
func (e *Env) FileBytes() []byte {
	b, err := os.ReadFile(e.Path)
	if err != nil {
		panic(err)
	}
	return b
}

// FaultArmed reports whether an injected fault is waiting for its call.
func (e *Env) FaultArmed() bool { return e.FailAt > 0 && e.Failed == nil }

// Model returns the working model of the write transaction.
func (r *rwState) Model() *model.Bucket { return r.m }

// ROModel returns the snapshot model of reader id.
func (e *Env) ROModel(id int) *model.Bucket { return e.RO[id].m }

// RWTx returns the open write transaction (nil if none).
func (e *Env) RWTx() *bolt.Tx {
	if e.RW == nil {
		return nil
	}
	return e.RW.tx
}

// ROTx returns reader id's transaction.
func (e *Env) ROTx(id int) *bolt.Tx {
	if r := e.RO[id]; r != nil {
		return r.tx
	}
	return nil
}

// ROTxid returns the txid reader id observes.
func (e *Env) ROTxid(id int) int { return e.RO[id].id }

// AdoptFailed makes the state of the write transaction whose commit returned an error the
// committed state (legal only when the final sync failed after the meta page had been written).
func (e *Env) AdoptFailed() {
	if e.FailedRW == nil {
		return
	}
	e.Committed = e.FailedRW.m
	e.LastTxid = e.FailedRW.id
	e.Versions[e.LastTxid] = e.Committed
	e.FailedRW = nil
}

// CompareReaders dumps every open reader and compares it with its snapshot.
func (e *Env) CompareReaders(when string) *Violation {
	ids := make([]int, 0, len(e.RO))
	for id := range e.RO {
		ids = append(ids, id)
	}
	sort.Ints(ids)
	for _, id := range ids {
		if v := e.compareRO(e.RO[id], when); v != nil {
			return v
		}
	}
	return nil
}

func (e *Env) captureClosed(tx *bolt.Tx, m *model.Bucket, rw bool) {
	e.closedTx, e.closedBucket, e.closedWasRW = tx, nil, rw
	if names := m.SubNames(); len(names) > 0 {
		e.closedBucket = tx.Bucket([]byte(names[0]))
	}
}

// closedTxProbe calls the entry points that are documented to return ErrTxClosed on an ended transaction.
func (e *Env) closedTxProbe() *Violation {
	tx := e.closedTx
	if tx == nil {
		return nil
	}
	want := func(what string, err error) *Violation {
		if !errors.Is(err, berrors.ErrTxClosed) {
			return Violf("%s on an ended transaction returned %v, want ErrTxClosed", what, err)
		}
		return nil
	}
	k := []byte("k")
	if _, err := tx.CreateBucket(k); true {
		if v := want("Tx.CreateBucket", err); v != nil {
			return v
		}
	}
	if _, err := tx.CreateBucketIfNotExists(k); true {
		if v := want("Tx.CreateBucketIfNotExists", err); v != nil {
			return v
		}
	}
	if v := want("Tx.DeleteBucket", tx.DeleteBucket(k)); v != nil {
		return v
	}
	if v := want("Tx.Commit", tx.Commit()); v != nil {
		return v
	}
	if v := want("Tx.Rollback", tx.Rollback()); v != nil {
		return v
	}
	if _, err := tx.Page(2); true {
		if v := want("Tx.Page", err); v != nil {
			return v
		}
	}
	if tx.DB() != nil {
		return Violf("Tx.DB() is non-nil on an ended transaction")
	}
	b := e.closedBucket
	if b == nil {
		return nil
	}
	if v := want("Bucket.Put", b.Put(k, k)); v != nil {
		return v
	}
	if v := want("Bucket.Delete", b.Delete(k)); v != nil {
		return v
	}
	if v := want("Bucket.DeleteBucket", b.DeleteBucket(k)); v != nil {
		return v
	}
	if _, err := b.CreateBucket(k); true {
		if v := want("Bucket.CreateBucket", err); v != nil {
			return v
		}
	}
	if _, err := b.CreateBucketIfNotExists(k); true {
		if v := want("Bucket.CreateBucketIfNotExists", err); v != nil {
			return v
		}
	}
	if v := want("Bucket.SetSequence", b.SetSequence(1)); v != nil {
		return v
	}
	if _, err := b.NextSequence(); true {
		if v := want("Bucket.NextSequence", err); v != nil {
			return v
		}
	}
	if v := want("Bucket.ForEach", b.ForEach(func(k, v []byte) error { return nil })); v != nil {
		return v
	}
	if v := want("Bucket.ForEachBucket", b.ForEachBucket(func(k []byte) error { return nil })); v != nil {
		return v
	}
	e.Label("closed-tx-probe")
	return nil
}

// Guard runs f and turns a panic of the code under test into a violation (and remembers that locks may be leaked).
func Guard(what string, f func() *Violation) (v *Violation) {
	defer recoverViol(&v, what)
	return f()
}

// tearMeta simulates an interrupted meta write of a transaction that never completed: the database is
// closed, the first op.U bytes of the OLDER meta slot are overwritten with a valid would-be newer meta
// (txid+1), and the file is reopened. The newest committed state is unchanged.
func (e *Env) tearMeta(op Op) *Violation {
	if e.DB == nil || e.RW != nil || len(e.RO) > 0 || e.PageSize == 0 {
		return nil
	}
	ps := e.PageSize
	if err := e.CloseDB(); err != nil {
		return Violf("close before tearing a meta page: %v", err)
	}
	data, err := os.ReadFile(e.Path)
	if err != nil || len(data) < 2*ps {
		return Violf("tearmeta: cannot read file: %v", err)
	}
	rf, rerr := refdec.Open(data, ps)
	if rerr != nil || rf.Current() == nil {
		return Violf("tearmeta: no valid meta in the file at rest: %v", rerr)
	}
	newer, older := rf.Current().Slot, 1-rf.Current().Slot
	txid := func(slot int) uint64 { return rf.Current().Txid }
	// would-be newer meta: copy of the newest with txid+1 (checksum left stale on purpose when the prefix is short;
	// a full 80-byte prefix would be a complete valid meta, so the prefix is capped at 71 bytes: checksum missing)
	img := append([]byte(nil), data[newer*ps:newer*ps+80]...)
	img[0] = byte(older)
	t := txid(newer) + 1
	for i := 0; i < 8; i++ {
		img[16+48+i] = byte(t >> (8 * uint(i)))
	}
	n := int(op.U)
	if n < 57 {
		n = 57 // must at least reach into the txid field, otherwise nothing changes
	}
	if n > 71 {
		n = 71
	}
	fh, err := os.OpenFile(e.Path, os.O_RDWR, 0)
	if err != nil {
		return Violf("tearmeta: %v", err)
	}
	_, err = fh.WriteAt(img[:n], int64(older*ps))
	fh.Close()
	if err != nil {
		return Violf("tearmeta: %v", err)
	}
	e.Label("meta-torn")
	o := e.Opts
	if op.Opts != nil {
		o = *op.Opts
	}
	o.PageSize = 0
	if err := e.Open(o); err != nil {
		return Violf("Open after a torn write into the older meta slot: %v", err)
	}
	if v := e.CheckCommitted("after reopening with a torn older meta"); v != nil {
		return v
	}
	if e.AfterOpen != nil {
		return e.AfterOpen(e)
	}
	return nil
}

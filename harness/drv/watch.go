package drv

import (
	"encoding/json"
	"fmt"
	"os"
	"path/filepath"
	"sync"
	"sync/atomic"
	"syscall"
	"time"
)

// The watchdog turns a call that does not return into a reported violation. Wall-clock time alone is
// a flaky signal on a loaded machine, so two independent limits are used:
//   - spinning: the process has burnt HangCPU of CPU time since the call started (a legitimate call
//     needs milliseconds of CPU; CPU time does not advance while the process is starved);
//   - blocked: HangWall of wall time has passed (a legitimate call never blocks; the limit is far above
//     anything load can cause).
// HangDeadline is kept as the nominal figure quoted in messages.

var (
	HangDeadline = 20 * time.Second
	HangCPU      = 120 * time.Second
	HangWall     = 600 * time.Second
	// HangIdleWall / HangIdleFor / HangIdleCPU: a call is also considered blocked when HangIdleWall of wall time have
	// passed and during the last HangIdleFor the whole process consumed less than HangIdleCPU of CPU time: every
	// goroutine is parked, nobody is left who could wake the call. A process that is merely starved by machine load
	// still accumulates CPU time with its runnable goroutines (seconds per minute even at a load of several hundred).
	HangIdleWall = 90 * time.Second
	HangIdleFor  = 60 * time.Second
	HangIdleCPU  = 300 * time.Millisecond
)

// CPU samples since the current watched call began
var (
	idleMu      sync.Mutex
	idleSamples []idleSample
)

type idleSample struct {
	at  time.Time
	cpu time.Duration
}

func resetIdle() {
	idleMu.Lock()
	idleSamples = idleSamples[:0]
	idleMu.Unlock()
}

// sampleIdle records one sample; called by the watchdog loops between their checks.
func sampleIdle() {
	sm := idleSample{at: time.Now(), cpu: ProcessCPU()}
	idleMu.Lock()
	if len(idleSamples) > 4000 {
		idleSamples = append(idleSamples[:0], idleSamples[2000:]...)
	}
	idleSamples = append(idleSamples, sm)
	idleMu.Unlock()
}

// idleFor reports whether the samples cover the last d and the process consumed less than HangIdleCPU in it.
func idleFor(d time.Duration) bool {
	idleMu.Lock()
	defer idleMu.Unlock()
	cut := time.Now().Add(-d)
	if len(idleSamples) < 2 || idleSamples[0].at.After(cut) {
		return false // the window is not covered yet
	}
	var first *idleSample
	for i := range idleSamples {
		if !idleSamples[i].at.Before(cut) {
			first = &idleSamples[i]
			break
		}
	}
	if first == nil {
		return false
	}
	last := idleSamples[len(idleSamples)-1]
	return last.at.Sub(first.at) >= d*9/10 && last.cpu-first.cpu < HangIdleCPU
}

var (
	watchMu    sync.Mutex
	watchEnv   *Env
	watchStart atomic.Int64
	watchCPU   atomic.Int64
	watchOnce  sync.Once
	// HangReport is called (if set) with the op log when a hang is detected; it must not return.
	HangReport func(log []Op)
)

// ProcessCPU returns the CPU time (user+system) this process has consumed.
func ProcessCPU() time.Duration {
	var ru syscall.Rusage
	if err := syscall.Getrusage(syscall.RUSAGE_SELF, &ru); err != nil {
		return 0
	}
	return time.Duration(ru.Utime.Nano() + ru.Stime.Nano())
}

// Hung reports whether a call started at (wallStart, cpuStart) must be considered hung.
func Hung(wallStart time.Time, cpuStart time.Duration) (bool, string) {
	if cpu := ProcessCPU() - cpuStart; cpu > HangCPU {
		return true, fmt.Sprintf("the call has consumed %v of CPU time without returning (spinning)", cpu.Round(time.Second))
	}
	limit := HangWall
	if panicSeen.Load() {
		// a panic of the code under test was already recovered (itself a violation): locks may be
		// left held, so a blocked call is expected - do not wait the full limit for it
		limit = 30 * time.Second
	}
	if w := time.Since(wallStart); w > limit {
		return true, fmt.Sprintf("the call has not returned after %v of wall time (blocked)", w.Round(time.Second))
	}
	sampleIdle()
	if time.Since(wallStart) > HangIdleWall && idleFor(HangIdleFor) {
		return true, fmt.Sprintf("the call has not returned after %v and for the last %v the whole process consumed less than %v of CPU time (blocked for good, not starved)", time.Since(wallStart).Round(time.Second), HangIdleFor, HangIdleCPU)
	}
	return false, ""
}

// WaitOrHang waits for done; it returns a description if the wait must be considered a hang.
func WaitOrHang(done <-chan struct{}) (hung bool, why string) {
	start, cpu := time.Now(), ProcessCPU()
	resetIdle()
	t := time.NewTicker(200 * time.Millisecond)
	defer t.Stop()
	for {
		select {
		case <-done:
			return false, ""
		case <-t.C:
			if h, why := Hung(start, cpu); h {
				return true, why
			}
		}
	}
}

func WatchBegin(e *Env) {
	watchOnce.Do(func() {
		go func() {
			for {
				time.Sleep(500 * time.Millisecond)
				st := watchStart.Load()
				if st == 0 {
					continue
				}
				if h, why := Hung(time.Unix(0, st), time.Duration(watchCPU.Load())); h && watchStart.Load() == st {
					watchMu.Lock()
					env := watchEnv
					watchMu.Unlock()
					var log []Op
					if env != nil {
						log = env.Log
					}
					fmt.Fprintf(os.Stderr, "HANG: %s\n", why)
					if HangReport != nil {
						HangReport(log)
					}
					os.Exit(3)
				}
			}
		}()
	})
	watchMu.Lock()
	watchEnv = e
	watchMu.Unlock()
	watchCPU.Store(int64(ProcessCPU()))
	resetIdle()
	watchStart.Store(time.Now().UnixNano())
}

func WatchEnd() { watchStart.Store(0) }

// WriteReplay stores a replay document under dir and returns its path.
func WriteReplay(dir, name string, doc any) string {
	_ = os.MkdirAll(dir, 0o755)
	p := filepath.Join(dir, name)
	j, _ := json.MarshalIndent(doc, "", " ")
	_ = os.WriteFile(p, j, 0o644)
	return p
}

package drv

import (
	"encoding/json"
	"fmt"
	"os"
	"path/filepath"
	"sync"
	"sync/atomic"
	"time"
)

// The watchdog turns a call that does not return into a reported violation:
// every Apply registers itself; if one is still running after HangDeadline the
// process writes the op log as replay, prints the VIOLATION line and exits.

var HangDeadline = 20 * time.Second

var (
	watchMu    sync.Mutex
	watchEnv   *Env
	watchStart atomic.Int64
	watchOnce  sync.Once
	// HangReport is called (if set) with the op log when a hang is detected; it must not return.
	HangReport func(log []Op)
)

func WatchBegin(e *Env) {
	watchOnce.Do(func() {
		go func() {
			for {
				time.Sleep(500 * time.Millisecond)
				st := watchStart.Load()
				if st != 0 && time.Since(time.Unix(0, st)) > HangDeadline {
					watchMu.Lock()
					env := watchEnv
					watchMu.Unlock()
					var log []Op
					if env != nil {
						log = env.Log
					}
					if HangReport != nil {
						HangReport(log)
					}
					fmt.Fprintf(os.Stderr, "HANG: call did not return within %v\n", HangDeadline)
					os.Exit(3)
				}
			}
		}()
	})
	watchMu.Lock()
	watchEnv = e
	watchMu.Unlock()
	watchStart.Store(time.Now().UnixNano())
}

func WatchEnd() { watchStart.Store(0) }

// WriteReplay stores a replay document under dir and returns its path.
func WriteReplay(dir, name string, doc any) string {
	_ = os.MkdirAll(dir, 0o755)
	p := filepath.Join(dir, name)
	j, _ := json.MarshalIndent(doc, "", " ")
	_ = os.WriteFile(p, j, 0o644)
	return p
}

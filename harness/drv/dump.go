package drv

import (
	"bytes"

	bolt "go.etcd.io/bbolt"

	"go.etcd.io/bbolt/verifh/model"
)

// DumpTx reads everything a transaction can observe into a model tree. While
// doing so it cross-checks the different read paths against each other:
// forward and backward cursor order, ForEach, Get and Bucket lookups.
func DumpTx(tx *bolt.Tx) (*model.Bucket, *Violation) {
	root := model.New()
	c := tx.Cursor()
	var names [][]byte
	for k, v := c.First(); k != nil; k, v = c.Next() {
		if v != nil {
			return nil, Violf("root cursor returned a non-nil value for %q", k)
		}
		names = append(names, append([]byte(nil), k...))
	}
	if v := checkBackward(tx.Cursor(), names, "root"); v != nil {
		return nil, v
	}
	i := 0
	err := tx.ForEach(func(name []byte, b *bolt.Bucket) error {
		if i >= len(names) || !bytes.Equal(names[i], name) {
			return Violf("Tx.ForEach name #%d %q differs from cursor order", i, name)
		}
		if b == nil {
			return Violf("Tx.ForEach passed a nil bucket for %q", name)
		}
		i++
		return nil
	})
	if err != nil {
		if v, ok := err.(*Violation); ok {
			return nil, v
		}
		return nil, Violf("Tx.ForEach: %v", err)
	}
	if i != len(names) {
		return nil, Violf("Tx.ForEach visited %d buckets, cursor %d", i, len(names))
	}
	for _, n := range names {
		b := tx.Bucket(n)
		if b == nil {
			return nil, Violf("Tx.Bucket(%q) is nil although the cursor listed it", n)
		}
		sub, v := dumpBucket(b, "/"+string(n))
		if v != nil {
			return nil, v
		}
		root.Sub[string(n)] = sub
	}
	return root, nil
}

func checkBackward(c *bolt.Cursor, fwd [][]byte, where string) *Violation {
	i := len(fwd) - 1
	for k, _ := c.Last(); k != nil; k, _ = c.Prev() {
		if i < 0 {
			return Violf("%s: backward iteration returns more keys than forward (%d); extra %q", where, len(fwd), k)
		}
		if !bytes.Equal(k, fwd[i]) {
			return Violf("%s: backward iteration key %q, expected %q (position %d of %d)", where, k, fwd[i], i, len(fwd))
		}
		i--
	}
	if i != -1 {
		return Violf("%s: backward iteration stopped early: %d of %d keys seen", where, len(fwd)-1-i, len(fwd))
	}
	return nil
}

// DumpBucket dumps one bucket (see DumpTx).
func DumpBucket(b *bolt.Bucket, where string) (*model.Bucket, *Violation) {
	return dumpBucket(b, where)
}

func dumpBucket(b *bolt.Bucket, where string) (*model.Bucket, *Violation) {
	out := model.New()
	out.Seq = b.Sequence()
	c := b.Cursor()
	var names [][]byte
	var isBucket []bool
	for k, v := c.First(); k != nil; k, v = c.Next() {
		kc := append([]byte(nil), k...)
		if len(names) > 0 && bytes.Compare(names[len(names)-1], kc) >= 0 {
			return nil, Violf("%s: cursor order broken: %q after %q", where, kc, names[len(names)-1])
		}
		names = append(names, kc)
		// A nil value means "nested bucket" - except that a key stored with a nil/empty value in
		// this very write transaction also reads back as nil (a long-standing quirk which the
		// model tolerates: empty == nil). Bucket() disambiguates.
		if v == nil && b.Bucket(kc) != nil {
			isBucket = append(isBucket, true)
		} else {
			isBucket = append(isBucket, false)
			out.Keys[string(kc)] = append([]byte{}, v...)
		}
	}
	if v := checkBackward(b.Cursor(), names, where); v != nil {
		return nil, v
	}
	i := 0
	err := b.ForEach(func(k, v []byte) error {
		if i >= len(names) || !bytes.Equal(names[i], k) {
			return Violf("%s: ForEach key #%d %q differs from cursor order", where, i, k)
		}
		if isBucket[i] && v != nil {
			return Violf("%s: ForEach passes a value for nested bucket %q", where, k)
		}
		if !isBucket[i] && !bytes.Equal(v, out.Keys[string(k)]) {
			return Violf("%s: ForEach value of %q differs from cursor value", where, k)
		}
		i++
		return nil
	})
	if err != nil {
		if v, ok := err.(*Violation); ok {
			return nil, v
		}
		return nil, Violf("%s: ForEach: %v", where, err)
	}
	if i != len(names) {
		return nil, Violf("%s: ForEach visited %d names, cursor %d", where, i, len(names))
	}
	for j, n := range names {
		if isBucket[j] {
			if g := b.Get(n); g != nil {
				return nil, Violf("%s: Get(%q) on a nested bucket returned %d bytes, want nil", where, n, len(g))
			}
			sb := b.Bucket(n)
			if sb == nil {
				return nil, Violf("%s: Bucket(%q) is nil although the cursor listed it as bucket", where, n)
			}
			sub, v := dumpBucket(sb, where+"/"+shortName(n))
			if v != nil {
				return nil, v
			}
			out.Sub[string(n)] = sub
		} else {
			g := b.Get(n)
			if g == nil && len(out.Keys[string(n)]) != 0 {
				return nil, Violf("%s: Get(%q) is nil although the cursor listed the key with a value", where, n)
			}
			if !bytes.Equal(g, out.Keys[string(n)]) {
				return nil, Violf("%s: Get(%q) differs from the cursor value", where, n)
			}
			if b.Bucket(n) != nil {
				return nil, Violf("%s: Bucket(%q) is non-nil for a plain key", where, n)
			}
		}
	}
	return out, nil
}

func shortName(n []byte) string {
	if len(n) > 16 {
		return string(n[:16]) + "..."
	}
	return string(n)
}

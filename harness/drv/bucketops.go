package drv

import (
	"bytes"
	"sort"
	"syscall"

	bolt "go.etcd.io/bbolt"
	berrors "go.etcd.io/bbolt/errors"

	"go.etcd.io/bbolt/verifh/model"
)

const (
	MaxKeySize   = 32768
	MaxValueSize = (1 << 31) - 2
)

var hugeSlice []byte

// HugeValue returns a lazily mapped slice one byte longer than MaxValueSize (never touched).
func HugeValue() []byte {
	if hugeSlice == nil {
		b, err := syscall.Mmap(-1, 0, MaxValueSize+1, syscall.PROT_READ, syscall.MAP_ANON|syscall.MAP_PRIVATE|syscall.MAP_NORESERVE)
		if err != nil {
			panic(err)
		}
		hugeSlice = b
	}
	return hugeSlice
}

func valEq(got, want []byte) bool {
	return bytes.Equal(got, want) // nil and empty compare equal
}

func (e *Env) applyBucketOp(op Op) *Violation {
	tx, m, writable := e.txFor(op)
	if tx == nil {
		return nil // transaction not open (can happen in shrunk logs): no-op
	}
	if op.Op == OpWriteTo {
		var cw countingWriter
		size := tx.Size()
		n, err := tx.WriteTo(&cw)
		if err != nil {
			return Violf("WriteTo(tx %d): %v", op.Tx, err)
		}
		if n != size || cw.n != size {
			return Violf("WriteTo(tx %d) wrote %d bytes (returned %d), Tx.Size() is %d", op.Tx, cw.n, n, size)
		}
		if got := tx.Size(); got != size {
			return Violf("Tx.Size() changed from %d to %d during WriteTo", size, got)
		}
		e.Label("writeto")
		return nil
	}
	if op.Op == OpDumpTx {
		got, dv := DumpTx(tx)
		if dv != nil {
			return Violf("dump of tx %d: %s", op.Tx, dv.Msg)
		}
		if d := model.Diff(got, m); d != "" {
			return Violf("tx %d view differs from model (bbolt vs model): %s", op.Tx, d)
		}
		return nil
	}
	path := PathStrs(op.Path)
	mb := m.Lookup(path)
	h, ok := e.resolve(tx, op.Path)
	if mb == nil {
		if ok {
			return Violf("%s: bucket %q exists in bbolt but not in the model", op.Op, path)
		}
		return nil
	}
	if !ok {
		return Violf("%s: bucket %q exists in the model but bbolt returns nil", op.Op, path)
	}
	isRoot := len(path) == 0
	var key []byte
	var ks string
	if op.Key != nil {
		key = op.Key.Bytes()
		ks = string(key)
	}
	var base []error
	if !writable {
		base = append(base, berrors.ErrTxNotWritable)
	}
	check := func(what string, err error, exp []error) *Violation {
		if len(exp) == 0 {
			if err != nil {
				return Violf("%s(%s) returned %v, want nil", what, op, err)
			}
			return nil
		}
		if !errIn(err, exp...) {
			return Violf("%s(%s) returned %v, want one of {%s}", what, op, err, errNames(exp))
		}
		return nil
	}

	switch op.Op {
	case OpCreate, OpCreateINE:
		exp := base
		if len(key) == 0 {
			exp = append(exp, berrors.ErrBucketNameRequired)
		}
		kind := mb.Has(ks)
		if kind == 1 {
			exp = append(exp, berrors.ErrIncompatibleValue)
		}
		if kind == 2 && op.Op == OpCreate {
			exp = append(exp, berrors.ErrBucketExists)
		}
		var nb *bolt.Bucket
		var err error
		if op.Op == OpCreate {
			nb, err = h.create(key)
		} else {
			nb, err = h.createINE(key)
		}
		if v := check(op.Op, err, exp); v != nil {
			return v
		}
		if len(exp) == 0 {
			if nb == nil {
				return Violf("%s returned nil bucket and nil error", op.Op)
			}
			if kind == 0 {
				mb.Sub[ks] = model.New()
				e.Label("bucket-created")
			}
			if nb.Sequence() != mb.Sub[ks].Seq {
				return Violf("%s: returned bucket has sequence %d, model %d", op.Op, nb.Sequence(), mb.Sub[ks].Seq)
			}
		} else {
			e.Label("err-path")
			if nb != nil {
				return Violf("%s returned a bucket together with error %v", op.Op, err)
			}
		}
	case OpDeleteBkt:
		exp := base
		switch mb.Has(ks) {
		case 0:
			exp = append(exp, berrors.ErrBucketNotFound)
		case 1:
			exp = append(exp, berrors.ErrIncompatibleValue)
		}
		err := h.deleteBucket(key)
		if v := check(op.Op, err, exp); v != nil {
			return v
		}
		if len(exp) == 0 {
			if len(mb.Sub[ks].Sub) > 0 {
				e.Label("nested-bucket-deleted")
			}
			delete(mb.Sub, ks)
			e.Label("bucket-deleted")
		} else {
			e.Label("err-path")
		}
	case OpMove:
		dpath := PathStrs(op.Dst)
		if op.DstR {
			dpath = nil
		}
		dmb := m.Lookup(dpath)
		dh, dok := e.resolve(tx, PathOf(dpath))
		if dmb == nil || !dok {
			return nil
		}
		exp := base
		switch mb.Has(ks) {
		case 0:
			exp = append(exp, berrors.ErrBucketNotFound)
		case 1:
			exp = append(exp, berrors.ErrIncompatibleValue)
		}
		same := len(path) == len(dpath)
		for i := 0; same && i < len(path); i++ {
			same = path[i] == dpath[i]
		}
		if same {
			exp = append(exp, berrors.ErrSameBuckets)
		}
		switch dmb.Has(ks) {
		case 1:
			exp = append(exp, berrors.ErrIncompatibleValue)
		case 2:
			if !same || mb.Has(ks) != 2 {
				exp = append(exp, berrors.ErrBucketExists)
			} else {
				exp = append(exp, berrors.ErrBucketExists) // same bucket: either error is documented
			}
		}
		// destination inside the moved bucket?
		intoSelf := mb.Has(ks) == 2 && len(dpath) > len(path) && dpath[len(path)] == ks
		for i := 0; intoSelf && i < len(path); i++ {
			intoSelf = path[i] == dpath[i]
		}
		err := tx.MoveBucket(key, h.b, dh.b)
		if intoSelf && len(exp) == 0 {
			// A nested map cannot contain itself: the only sound outcome is an error that leaves the state unchanged.
			e.Label("move-into-self")
			if err == nil {
				return Violf("MoveBucket(%s) of a bucket into its own subtree returned nil; the bucket and its subtree are detached", op)
			}
			return nil
		}
		if v := check(op.Op, err, exp); v != nil {
			return v
		}
		if len(exp) == 0 {
			dmb.Sub[ks] = mb.Sub[ks]
			delete(mb.Sub, ks)
			e.Label("bucket-moved")
		} else {
			e.Label("err-path")
		}
	case OpPut:
		if isRoot {
			return nil
		}
		var val []byte
		if op.Note == "huge" {
			val = HugeValue()
		} else if op.Val != nil {
			val = op.Val.Bytes()
		}
		exp := base
		if len(key) == 0 {
			exp = append(exp, berrors.ErrKeyRequired)
		}
		if len(key) > MaxKeySize {
			exp = append(exp, berrors.ErrKeyTooLarge)
		}
		if len(val) > MaxValueSize {
			exp = append(exp, berrors.ErrValueTooLarge)
		}
		if mb.Has(ks) == 2 {
			exp = append(exp, berrors.ErrIncompatibleValue)
		}
		err := h.b.Put(key, val)
		if v := check(op.Op, err, exp); v != nil {
			return v
		}
		if len(exp) == 0 {
			mb.Keys[ks] = append([]byte{}, val...)
		} else {
			e.Label("err-path")
		}
	case OpGet:
		if isRoot {
			return nil
		}
		got := h.b.Get(key)
		if mb.Has(ks) == 1 {
			if !valEq(got, mb.Keys[ks]) {
				return Violf("Get(%s) = %s, model %s", op, short(got), short(mb.Keys[ks]))
			}
			if got == nil && len(mb.Keys[ks]) > 0 {
				return Violf("Get(%s) = nil for an existing key", op)
			}
		} else if got != nil {
			return Violf("Get(%s) = %s for a missing key or bucket, want nil", op, short(got))
		}
	case OpDelete:
		if isRoot {
			return nil
		}
		exp := base
		if mb.Has(ks) == 2 {
			exp = append(exp, berrors.ErrIncompatibleValue)
		}
		err := h.b.Delete(key)
		if v := check(op.Op, err, exp); v != nil {
			return v
		}
		if len(exp) == 0 {
			delete(mb.Keys, ks)
		} else {
			e.Label("err-path")
		}
	case OpCurDelete:
		names := mb.Names()
		i := sort.SearchStrings(names, ks)
		c := h.cursor()
		k, _ := c.Seek(key)
		if i >= len(names) {
			if k != nil {
				return Violf("Seek(%s) = %q, model: no key at or after it", op, k)
			}
			return nil
		}
		if string(k) != names[i] {
			return Violf("Seek(%s) = %q, model %q", op, k, names[i])
		}
		exp := base
		if mb.Has(names[i]) == 2 {
			exp = append(exp, berrors.ErrIncompatibleValue)
		}
		err := c.Delete()
		if v := check(op.Op, err, exp); v != nil {
			return v
		}
		if len(exp) == 0 {
			delete(mb.Keys, names[i])
		} else {
			e.Label("err-path")
		}
	case OpSeq:
		if isRoot {
			return nil
		}
		if got := h.b.Sequence(); got != mb.Seq {
			return Violf("Sequence(%s) = %d, model %d", op, got, mb.Seq)
		}
	case OpSetSeq:
		if isRoot {
			return nil
		}
		err := h.b.SetSequence(op.U)
		if v := check(op.Op, err, base); v != nil {
			return v
		}
		if len(base) == 0 {
			mb.Seq = op.U
			e.Label("seq-set")
		}
	case OpNextSeq:
		if isRoot {
			return nil
		}
		got, err := h.b.NextSequence()
		if v := check(op.Op, err, base); v != nil {
			return v
		}
		if len(base) == 0 {
			mb.Seq++
			if got != mb.Seq {
				return Violf("NextSequence(%s) = %d, model %d", op, got, mb.Seq)
			}
			e.Label("seq-set")
		}
	case OpFill:
		if isRoot || !writable {
			return nil
		}
		h.b.FillPercent = op.F
	case OpForEach:
		if isRoot {
			return nil
		}
		names := mb.Names()
		i := 0
		err := h.b.ForEach(func(k, v []byte) error {
			if i >= len(names) {
				return Violf("ForEach(%s) yields extra key %q", op, k)
			}
			if string(k) != names[i] {
				return Violf("ForEach(%s) key #%d = %q, model %q", op, i, k, names[i])
			}
			if mb.Has(names[i]) == 2 {
				if v != nil {
					return Violf("ForEach(%s): nested bucket %q has non-nil value", op, k)
				}
			} else if !valEq(v, mb.Keys[names[i]]) {
				return Violf("ForEach(%s): value of %q differs", op, k)
			}
			i++
			return nil
		})
		if err != nil {
			if v, ok := err.(*Violation); ok {
				return v
			}
			return Violf("ForEach(%s): %v", op, err)
		}
		if i != len(names) {
			return Violf("ForEach(%s) visited %d names, model %d", op, i, len(names))
		}
	case OpForEachBkt:
		if isRoot {
			return nil
		}
		names := mb.SubNames()
		i := 0
		err := h.b.ForEachBucket(func(k []byte) error {
			if i >= len(names) || string(k) != names[i] {
				return Violf("ForEachBucket(%s) name #%d = %q unexpected", op, i, k)
			}
			i++
			return nil
		})
		if err != nil {
			if v, ok := err.(*Violation); ok {
				return v
			}
			return Violf("ForEachBucket(%s): %v", op, err)
		}
		if i != len(names) {
			return Violf("ForEachBucket(%s) visited %d, model %d", op, i, len(names))
		}
	case OpTxForEach:
		names := m.SubNames()
		i := 0
		err := tx.ForEach(func(name []byte, b *bolt.Bucket) error {
			if i >= len(names) || string(name) != names[i] {
				return Violf("Tx.ForEach name #%d = %q unexpected", i, name)
			}
			if b == nil {
				return Violf("Tx.ForEach nil bucket for %q", name)
			}
			if b.Sequence() != m.Sub[names[i]].Seq {
				return Violf("Tx.ForEach bucket %q sequence %d, model %d", name, b.Sequence(), m.Sub[names[i]].Seq)
			}
			i++
			return nil
		})
		if err != nil {
			if v, ok := err.(*Violation); ok {
				return v
			}
			return Violf("Tx.ForEach: %v", err)
		}
		if i != len(names) {
			return Violf("Tx.ForEach visited %d, model %d", i, len(names))
		}
	case OpInspect:
		var bs bolt.BucketStructure
		if isRoot {
			bs = tx.Inspect()
		} else {
			bs = h.b.Inspect()
		}
		if v := cmpInspect(bs, mb, "root"); v != nil {
			return v
		}
	case OpStatsKeyN:
		if isRoot || writable {
			return nil // Stats reads committed pages only: exact in read transactions
		}
		// KeyN counts every leaf element of the bucket and of all buckets nested in it (keys and bucket names)
		st := h.b.Stats()
		if want := modelElements(mb); st.KeyN != want {
			return Violf("Stats().KeyN(%s) = %d, model has %d keys and bucket names in the subtree", op, st.KeyN, want)
		}
		if want := modelBuckets(mb); st.BucketN != want {
			return Violf("Stats().BucketN(%s) = %d, model has %d buckets in the subtree", op, st.BucketN, want)
		}
	case OpBucketProbe:
		got := h.bucket(key)
		if (got != nil) != (mb.Has(ks) == 2) {
			return Violf("Bucket(%s) non-nil=%v, model kind %d", op, got != nil, mb.Has(ks))
		}
		if got != nil && got.Sequence() != mb.Sub[ks].Seq {
			return Violf("Bucket(%s).Sequence() = %d, model %d", op, got.Sequence(), mb.Sub[ks].Seq)
		}
	case OpCursor:
		if writable && !isRoot {
			return RunCursorMut(h.cursor(), h.b, mb, op.Cur, e)
		}
		return RunCursor(h.cursor(), mb, op.Cur, e)
	case OpBulkPut:
		if isRoot || !writable {
			return nil
		}
		val := op.Val.Bytes()
		for i := op.From; i < op.To; i++ {
			k := BulkKey(*op.Key, i, op.KN)
			if mb.Has(string(k)) == 2 {
				continue
			}
			if err := h.b.Put(k, val); err != nil {
				return Violf("bulk Put #%d (%s): %v", i, op, err)
			}
			mb.Keys[string(k)] = append([]byte{}, val...)
		}
		e.Label("bulkput")
	case OpBulkDel:
		if isRoot || !writable {
			return nil
		}
		for i := op.From; i < op.To; i++ {
			k := BulkKey(*op.Key, i, op.KN)
			if mb.Has(string(k)) == 2 {
				continue
			}
			if err := h.b.Delete(k); err != nil {
				return Violf("bulk Delete #%d (%s): %v", i, op, err)
			}
			delete(mb.Keys, string(k))
		}
		e.Label("bulkdel")
	}
	return nil
}

func cmpInspect(bs bolt.BucketStructure, mb *model.Bucket, at string) *Violation {
	if bs.KeyN != len(mb.Keys) {
		return Violf("Inspect %s: KeyN %d, model %d", at, bs.KeyN, len(mb.Keys))
	}
	names := mb.SubNames()
	if len(bs.Children) != len(names) {
		return Violf("Inspect %s: %d children, model %d", at, len(bs.Children), len(names))
	}
	for i, c := range bs.Children {
		if c.Name != names[i] {
			return Violf("Inspect %s: child #%d %q, model %q", at, i, c.Name, names[i])
		}
		if v := cmpInspect(c, mb.Sub[names[i]], at+"/"+shortName([]byte(c.Name))); v != nil {
			return v
		}
	}
	return nil
}

func short(s []byte) string {
	if s == nil {
		return "nil"
	}
	if len(s) > 24 {
		return string(append([]byte{}, s[:16]...)) + "...(" + itoa(len(s)) + " bytes)"
	}
	return string(s)
}

func itoa(i int) string {
	if i == 0 {
		return "0"
	}
	var b []byte
	for i > 0 {
		b = append([]byte{byte('0' + i%10)}, b...)
		i /= 10
	}
	return string(b)
}

// RunCursor executes cursor calls on c and on a sorted list with a position.
func RunCursor(c *bolt.Cursor, mb *model.Bucket, calls []CurCall, e *Env) *Violation {
	return RunCursorMut(c, nil, mb, calls, e)
}

// RunCursorMut is RunCursor for a cursor that stays in use across mutations of its bucket b (nil: the calls
// put/del/cdel are skipped). After a mutation the cursor is unpositioned until First/Last/Seek is called - as the
// Cursor documentation requires - and those calls must then reflect the mutation.
func RunCursorMut(c *bolt.Cursor, b *bolt.Bucket, mb *model.Bucket, calls []CurCall, e *Env) *Violation {
	names := mb.Names()
	n := len(names)
	pos := -1      // index of the current key
	atEnd := false // positioned past the last key (after a Seek that found nothing)
	positioned := false
	dirChanges, lastDir := 0, 0
	lastRet := -1 // index of the key the previous call returned (-1: it returned nil or was a mutation)
	for ci, call := range calls {
		var k, v []byte
		want := -1 // index expected, -1 = nil
		switch call.C {
		case "put", "del", "cdel":
			if b == nil {
				continue
			}
			switch call.C {
			case "put":
				key := call.K.Bytes()
				if len(key) == 0 || len(key) > MaxKeySize || mb.Has(string(key)) == 2 {
					continue
				}
				val := call.V.Bytes()
				if err := b.Put(key, val); err != nil {
					return Violf("cursor program call #%d: Put(%q): %v", ci, key, err)
				}
				mb.Keys[string(key)] = append([]byte{}, val...)
			case "del":
				key := call.K.Bytes()
				if len(key) == 0 || mb.Has(string(key)) == 2 {
					continue
				}
				if err := b.Delete(key); err != nil {
					return Violf("cursor program call #%d: Delete(%q): %v", ci, key, err)
				}
				delete(mb.Keys, string(key))
			case "cdel":
				// only directly after a call that returned a key: that key is what Cursor.Delete removes
				if lastRet < 0 || lastRet >= n || mb.Has(names[lastRet]) != 1 {
					continue
				}
				if err := c.Delete(); err != nil {
					return Violf("cursor program call #%d: Cursor.Delete at %q: %v", ci, names[lastRet], err)
				}
				delete(mb.Keys, names[lastRet])
			}
			lastRet = -1
			if e != nil {
				e.Label("cursor-reused-across-mutation")
			}
			names = mb.Names()
			n = len(names)
			positioned, atEnd, pos = false, false, -1
			continue
		case "first":
			k, v = c.First()
			positioned, atEnd = true, false
			if n > 0 {
				pos, want = 0, 0
			} else {
				pos = -1
			}
		case "last":
			k, v = c.Last()
			positioned, atEnd = true, false
			if n > 0 {
				pos, want = n-1, n-1
			} else {
				pos = -1
			}
		case "seek":
			key := call.K.Bytes()
			k, v = c.Seek(key)
			positioned = true
			i := sort.SearchStrings(names, string(key))
			if i < n {
				pos, want, atEnd = i, i, false
			} else {
				atEnd = true
				pos = n - 1
			}
		case "next":
			if !positioned {
				continue
			}
			k, v = c.Next()
			if lastDir == -1 {
				dirChanges++
			}
			lastDir = 1
			if n == 0 || atEnd || pos >= n-1 {
				// stays
			} else {
				pos++
				want = pos
			}
		case "prev":
			if !positioned {
				continue
			}
			k, v = c.Prev()
			if lastDir == 1 {
				dirChanges++
			}
			lastDir = -1
			if n == 0 {
				// nil
			} else if atEnd {
				atEnd = false
				want = pos // pos == n-1
			} else if pos <= 0 {
				// stays
			} else {
				pos--
				want = pos
			}
		}
		lastRet = want
		if want == -1 {
			if k != nil {
				return Violf("cursor call #%d %s%v returned key %q, sorted-list model returns nil (names=%d)", ci, call.C, keyOf(call), k, n)
			}
			if v != nil {
				return Violf("cursor call #%d %s returned nil key with non-nil value", ci, call.C)
			}
			continue
		}
		if k == nil {
			return Violf("cursor call #%d %s%v returned nil, sorted-list model returns %q (index %d of %d)", ci, call.C, keyOf(call), names[want], want, n)
		}
		if string(k) != names[want] {
			return Violf("cursor call #%d %s%v returned %q, sorted-list model returns %q (index %d of %d)", ci, call.C, keyOf(call), k, names[want], want, n)
		}
		if mb.Has(names[want]) == 2 {
			if v != nil {
				return Violf("cursor call #%d %s: nested bucket %q returned with non-nil value", ci, call.C, k)
			}
		} else if !valEq(v, mb.Keys[names[want]]) {
			return Violf("cursor call #%d %s: value of %q differs from model", ci, call.C, k)
		}
	}
	if e != nil && dirChanges > 0 {
		e.Label("cursor-dir-change")
	}
	return nil
}

func keyOf(c CurCall) string {
	if c.K == nil {
		return ""
	}
	return "(" + c.K.String() + ")"
}

type countingWriter struct{ n int64 }

func (c *countingWriter) Write(p []byte) (int, error) { c.n += int64(len(p)); return len(p), nil }

func modelElements(m *model.Bucket) int {
	n := len(m.Keys) + len(m.Sub)
	for _, s := range m.Sub {
		n += modelElements(s)
	}
	return n
}

func modelBuckets(m *model.Bucket) int {
	n := 1
	for _, s := range m.Sub {
		n += modelBuckets(s)
	}
	return n
}

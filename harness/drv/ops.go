// Package drv executes operation logs against bbolt and the reference model.
package drv

import (
	"encoding/hex"
	"encoding/json"
	"fmt"
)

// B is a compact, JSON-friendly byte-string spec: the prefix S (or hex H when
// not printable) padded up to N bytes with a deterministic filler.
type B struct {
	S string `json:"s,omitempty"`
	H string `json:"h,omitempty"`
	N int    `json:"n,omitempty"`
	// Nil distinguishes a nil slice from an empty one (only matters for values).
	Nil bool `json:"nil,omitempty"`
}

func Lit(s string) B { return B{S: s} }

func FromBytes(b []byte) B {
	if b == nil {
		return B{Nil: true}
	}
	printable := true
	for _, c := range b {
		if c < 0x20 || c > 0x7e {
			printable = false
			break
		}
	}
	if printable {
		return B{S: string(b)}
	}
	return B{H: hex.EncodeToString(b)}
}

// Bytes materialises the spec.
func (b B) Bytes() []byte {
	if b.Nil {
		return nil
	}
	var p []byte
	if b.H != "" {
		p, _ = hex.DecodeString(b.H)
	} else {
		p = []byte(b.S)
	}
	if b.N <= len(p) {
		if p == nil {
			p = []byte{}
		}
		return p
	}
	out := make([]byte, b.N)
	copy(out, p)
	// filler: depends on the prefix so that different keys get different tails
	var h uint32 = 2166136261
	for _, c := range p {
		h = (h ^ uint32(c)) * 16777619
	}
	for i := len(p); i < b.N; i++ {
		h = h*1664525 + 1013904223
		out[i] = byte(h >> 24)
	}
	return out
}

func (b B) Str() string { return string(b.Bytes()) }

func (b B) String() string {
	j, _ := json.Marshal(b)
	return string(j)
}

// OpenOpts are the options of one Open call, JSON-serialisable.
type OpenOpts struct {
	PageSize        int    `json:"ps,omitempty"` // only used when the file is created
	Freelist        string `json:"fl,omitempty"` // "array" | "hashmap"
	NoFreelistSync  bool   `json:"nfs,omitempty"`
	NoGrowSync      bool   `json:"ngs,omitempty"`
	InitialMmapSize int    `json:"imm,omitempty"`
	ReadOnly        bool   `json:"ro,omitempty"`
	PreLoadFreelist bool   `json:"pre,omitempty"`
	Mlock           bool   `json:"mlock,omitempty"`
	StrictMode      bool   `json:"strict,omitempty"`
	MaxSize         int    `json:"max,omitempty"`
	AllocSize       int    `json:"alloc,omitempty"`
	NoStatistics    bool   `json:"nostat,omitempty"`
	TimeoutMs       int    `json:"to,omitempty"`
	Logger          bool   `json:"logger,omitempty"`   // a (silent) custom logger: takes the logging branches of every API call
	MmapPopulate    bool   `json:"populate,omitempty"` // Options.MmapFlags = MAP_POPULATE
}

// Op kinds. Transaction-level ops act on the environment, bucket-level ops on
// the bucket at Path inside transaction Tx (Tx 0 = the write transaction,
// Tx n>0 = read transaction n).
const (
	OpOpen     = "open"     // Opts
	OpClose    = "close"    //
	OpReopen   = "reopen"   // Opts
	OpBeginRW  = "beginrw"  //
	OpCommit   = "commit"   //
	OpRollback = "rollback" //
	OpBeginRO  = "beginro"  // Tx = new reader id
	OpCloseRO  = "closero"  // Tx
	OpDumpRO   = "dumpro"   // Tx
	OpProbe    = "probe"    // empty Begin(true)+Rollback

	OpCreate      = "create"  // Path, Key
	OpCreateINE   = "createi" // Path, Key
	OpDeleteBkt   = "delbkt"  // Path, Key
	OpMove        = "move"    // Path (src), Key, Dst
	OpPut         = "put"     // Path, Key, Val
	OpGet         = "get"     // Path, Key
	OpDelete      = "del"     // Path, Key
	OpCurDelete   = "curdel"  // Path, Key (Seek(Key) then Cursor.Delete)
	OpSeq         = "seq"     // Path
	OpSetSeq      = "setseq"  // Path, U
	OpNextSeq     = "nextseq" // Path
	OpForEach     = "foreach" // Path
	OpForEachBkt  = "foreachb"
	OpTxForEach   = "txforeach"
	OpInspect     = "inspect"
	OpStatsKeyN   = "keyn"
	OpFill        = "fill" // Path, F (FillPercent)
	OpDumpTx      = "dumptx"
	OpBucketProbe = "bprobe" // Path: Bucket() lookups incl. missing
	OpCursor      = "cursor" // Path, Cur: list of cursor calls
	OpClosedTxUse = "closeduse"
	OpBulkPut     = "bulkput"  // Path, Key (prefix), From, To, KN (key length), Val
	OpBulkDel     = "bulkdel"  // Path, Key (prefix), From, To, KN
	OpWriteTo     = "writeto"  // Tx: copy the transaction to a discarding writer (n must equal Tx.Size())
	OpTearMeta    = "tearmeta" // U: close, overwrite the first U bytes of the OLDER meta slot with a would-be newer meta, reopen (Opts)
	OpArmFault    = "armfault" // U: the U-th I/O call from now fails once (kinds in Note, default all but mmap)
)

type CurCall struct {
	C string `json:"c"` // first last next prev seek | put del cdel (mutations: the cursor must be repositioned afterwards)
	K *B     `json:"k,omitempty"`
	V *B     `json:"v,omitempty"`
}

type Op struct {
	Op   string    `json:"op"`
	Tx   int       `json:"tx,omitempty"`
	Path []B       `json:"path,omitempty"`
	Key  *B        `json:"key,omitempty"`
	Val  *B        `json:"val,omitempty"`
	Dst  []B       `json:"dst,omitempty"`
	DstR bool      `json:"dstroot,omitempty"` // Dst is the root (nil bucket)
	U    uint64    `json:"u,omitempty"`
	F    float64   `json:"f,omitempty"`
	Opts *OpenOpts `json:"opts,omitempty"`
	Cur  []CurCall `json:"cur,omitempty"`
	Note string    `json:"note,omitempty"`
	From int       `json:"from,omitempty"`
	To   int       `json:"to,omitempty"`
	KN   int       `json:"kn,omitempty"`
}

// BulkKey is the i-th key of a bulk op: prefix + 5 digits, padded to kn bytes.
func BulkKey(prefix B, i, kn int) []byte {
	p := prefix.Bytes()
	k := append(append([]byte{}, p...), []byte(fmt.Sprintf("%05d", i))...)
	return B{H: hex.EncodeToString(k), N: kn}.Bytes()
}

func (o Op) String() string {
	j, _ := json.Marshal(o)
	return string(j)
}

func PathStrs(p []B) []string {
	out := make([]string, len(p))
	for i, e := range p {
		out[i] = e.Str()
	}
	return out
}

func PathOf(strs []string) []B {
	out := make([]B, len(strs))
	for i, s := range strs {
		out[i] = FromBytes([]byte(s))
	}
	return out
}

// Violation is a failed oracle.
type Violation struct {
	Msg string
}

func (v *Violation) Error() string { return v.Msg }

func Violf(format string, args ...any) *Violation {
	return &Violation{Msg: fmt.Sprintf(format, args...)}
}

// Package model is the reference model of a bbolt database: a tree of
// byte-string keyed maps, each with a counter. It imports nothing from bbolt.
package model

import (
	"bytes"
	"fmt"
	"sort"
)

// Bucket is one level of the nested map. A name is either in Keys or in Sub,
// never both. The root is a Bucket that only ever holds Sub entries.
type Bucket struct {
	Seq  uint64
	Keys map[string][]byte
	Sub  map[string]*Bucket
}

func New() *Bucket { return &Bucket{Keys: map[string][]byte{}, Sub: map[string]*Bucket{}} }

func (b *Bucket) Clone() *Bucket {
	n := &Bucket{Seq: b.Seq, Keys: make(map[string][]byte, len(b.Keys)), Sub: make(map[string]*Bucket, len(b.Sub))}
	for k, v := range b.Keys {
		n.Keys[k] = v // values are never mutated in place
	}
	for k, s := range b.Sub {
		n.Sub[k] = s.Clone()
	}
	return n
}

// Lookup follows path from b; nil if some element is missing.
func (b *Bucket) Lookup(path []string) *Bucket {
	cur := b
	for _, p := range path {
		cur = cur.Sub[p]
		if cur == nil {
			return nil
		}
	}
	return cur
}

// Names returns all names (keys and sub-buckets) in byte order.
func (b *Bucket) Names() []string {
	out := make([]string, 0, len(b.Keys)+len(b.Sub))
	for k := range b.Keys {
		out = append(out, k)
	}
	for k := range b.Sub {
		out = append(out, k)
	}
	sort.Strings(out)
	return out
}

func (b *Bucket) KeyNames() []string {
	out := make([]string, 0, len(b.Keys))
	for k := range b.Keys {
		out = append(out, k)
	}
	sort.Strings(out)
	return out
}

func (b *Bucket) SubNames() []string {
	out := make([]string, 0, len(b.Sub))
	for k := range b.Sub {
		out = append(out, k)
	}
	sort.Strings(out)
	return out
}

// Has reports what a name is: 0 absent, 1 key, 2 bucket.
func (b *Bucket) Has(name string) int {
	if _, ok := b.Keys[name]; ok {
		return 1
	}
	if _, ok := b.Sub[name]; ok {
		return 2
	}
	return 0
}

// CountAll returns the total number of keys and buckets below b.
func (b *Bucket) CountAll() (keys, buckets int) {
	keys = len(b.Keys)
	for _, s := range b.Sub {
		k, n := s.CountAll()
		keys += k
		buckets += n + 1
	}
	return
}

// AllPaths lists the paths of every bucket below b (b itself is the empty path), in a deterministic order.
func (b *Bucket) AllPaths() [][]string {
	var out [][]string
	var rec func(cur *Bucket, p []string)
	rec = func(cur *Bucket, p []string) {
		out = append(out, append([]string(nil), p...))
		for _, n := range cur.SubNames() {
			rec(cur.Sub[n], append(p, n))
		}
	}
	rec(b, nil)
	return out
}

func short(s []byte) string {
	if len(s) > 24 {
		return fmt.Sprintf("%q...(%d bytes)", s[:16], len(s))
	}
	return fmt.Sprintf("%q", s)
}

// Diff returns "" when a and b hold the same content (a stored empty value
// equals a nil value: README "Known Issues"), else a description of the first difference.
func Diff(a, b *Bucket) string { return diff(a, b, "/") }

func diff(a, b *Bucket, at string) string {
	if a.Seq != b.Seq {
		return fmt.Sprintf("%s: sequence %d vs %d", at, a.Seq, b.Seq)
	}
	an, bn := a.Names(), b.Names()
	for i := 0; i < len(an) || i < len(bn); i++ {
		if i >= len(an) {
			return fmt.Sprintf("%s: name %s only on right (%d vs %d names)", at, short([]byte(bn[i])), len(an), len(bn))
		}
		if i >= len(bn) {
			return fmt.Sprintf("%s: name %s only on left (%d vs %d names)", at, short([]byte(an[i])), len(an), len(bn))
		}
		if an[i] != bn[i] {
			return fmt.Sprintf("%s: name #%d differs: %s vs %s", at, i, short([]byte(an[i])), short([]byte(bn[i])))
		}
		n := an[i]
		ak, bk := a.Has(n), b.Has(n)
		if ak != bk {
			return fmt.Sprintf("%s: %s is kind %d vs %d (1=key 2=bucket)", at, short([]byte(n)), ak, bk)
		}
		if ak == 1 {
			if !bytes.Equal(a.Keys[n], b.Keys[n]) {
				return fmt.Sprintf("%s: value of %s differs: %s vs %s", at, short([]byte(n)), short(a.Keys[n]), short(b.Keys[n]))
			}
		} else {
			if d := diff(a.Sub[n], b.Sub[n], at+fmt.Sprintf("%q/", shortStr(n))); d != "" {
				return d
			}
		}
	}
	return ""
}

func shortStr(s string) string {
	if len(s) > 16 {
		return s[:16] + "..."
	}
	return s
}

// Canonical renders the tree as sorted text lines (hex paths/keys, value hash and length, sequences):
// a stable, byte-exact digest used for the golden corpus.
func Canonical(b *Bucket) []string {
	var out []string
	var rec func(cur *Bucket, path string)
	rec = func(cur *Bucket, path string) {
		out = append(out, fmt.Sprintf("B %s seq=%d keys=%d buckets=%d", path, cur.Seq, len(cur.Keys), len(cur.Sub)))
		for _, k := range cur.KeyNames() {
			v := cur.Keys[k]
			var h uint64 = 14695981039346656037
			for _, c := range v {
				h = (h ^ uint64(c)) * 1099511628211
			}
			out = append(out, fmt.Sprintf("K %s/%x len=%d fnv=%016x", path, k, len(v), h))
		}
		for _, n := range cur.SubNames() {
			rec(cur.Sub[n], path+"/"+fmt.Sprintf("%x", n))
		}
	}
	rec(b, "")
	return out
}

// Package gen holds the rapid generators: every random choice of every check is a rapid draw.
package gen

import (
	"sort"

	"pgregory.net/rapid"

	"go.etcd.io/bbolt/verifh/drv"
	"go.etcd.io/bbolt/verifh/model"
)

// Cfg tunes the history generator.
type Cfg struct {
	MaxDepth       int
	Readers        bool // generate read transactions
	Reopen         bool // generate reopen ops
	ErrProbes      bool // generate calls that must fail with a documented error
	Large          bool // multi-page keys/values
	Bulk           bool // bulk put/delete ops (structure thresholds)
	Rollbacks      bool
	Cursors        bool
	Probes         bool // empty write transactions
	NoMoveIntoSelf bool // known finding F2: do not generate MoveBucket into the moved bucket's own subtree
	Excluded       *int // counts draws redirected because of a known finding
	BucketWeight   int  // extra weight of bucket create/delete/move
	MaxReaders     int
	FixedOpts      *drv.OpenOpts // when set, reopen uses these options
	PageSizes      []int
	MaxSize        bool
	CommitWeight   int    // weight of commit inside a write transaction (default 12 of ~100)
	ReaderBoost    int    // multiplier of reader begin/close weights
	ReopenWeight   int    // default 6
	CursorMut      int    // percentage of cursor-program calls that mutate the bucket (cursor reused across mutations)
	Faults         int    // weight of arming an I/O fault (0 = never)
	FaultKinds     string // kinds of calls an armed fault may hit ("" = all; see drv.OpArmFault)
	TearMeta       int    // weight of tearing the older meta slot between sessions (0 = never)
	MidReaders     int    // percentage of commits during which a reader is begun from inside the commit (I/O hook)
}

func DefaultCfg() Cfg {
	return Cfg{MaxDepth: 5, Readers: true, Reopen: true, ErrProbes: true, Large: true, Bulk: true, Rollbacks: true, Cursors: true, Probes: true, MaxReaders: 4, BucketWeight: 1, CursorMut: 12}
}

var pageSizes = []int{1024, 1024, 1024, 2048, 4096, 4096, 8192, 16384}

// Opts draws open options.
func Opts(t *rapid.T, cfg Cfg) drv.OpenOpts {
	ps := pageSizes
	if len(cfg.PageSizes) > 0 {
		ps = cfg.PageSizes
	}
	o := drv.OpenOpts{
		PageSize:        rapid.SampledFrom(ps).Draw(t, "pagesize"),
		Freelist:        rapid.SampledFrom([]string{"array", "hashmap"}).Draw(t, "freelist"),
		NoFreelistSync:  rapid.Bool().Draw(t, "nofreelistsync"),
		NoGrowSync:      rapid.IntRange(0, 3).Draw(t, "nogrowsync") == 0,
		InitialMmapSize: rapid.SampledFrom([]int{0, 0, 64 << 10, 1 << 20, 8 << 20}).Draw(t, "initialmmap"),
	}
	return o
}

type weighted struct {
	w    int
	kind string
}

func pick(t *rapid.T, label string, ws []weighted) string {
	total := 0
	for _, w := range ws {
		total += w.w
	}
	x := rapid.IntRange(0, total-1).Draw(t, label)
	for _, w := range ws {
		if x < w.w {
			return w.kind
		}
		x -= w.w
	}
	return ws[len(ws)-1].kind
}

var alphabet = []string{"a", "b", "c", "d"}
var oddBytes = []string{"\x00", "\xff", "\x7f", "\x80", "a\x00", "\x00\x00", "\xff\xff"}

// Key draws a key for bucket mb: existing names, neighbours of existing names and fresh ones.
func Key(t *rapid.T, mb *model.Bucket, cfg Cfg, pageSize int) drv.B {
	names := mb.Names()
	c := rapid.IntRange(0, 99).Draw(t, "keyclass")
	switch {
	case c < 35 && len(names) > 0:
		return drv.FromBytes([]byte(names[rapid.IntRange(0, len(names)-1).Draw(t, "existing")]))
	case c < 45 && len(names) > 0:
		n := names[rapid.IntRange(0, len(names)-1).Draw(t, "neighbour")]
		switch rapid.IntRange(0, 3).Draw(t, "nbkind") {
		case 0:
			return drv.FromBytes([]byte(n + "\x00"))
		case 1:
			if len(n) > 1 {
				return drv.FromBytes([]byte(n[:len(n)-1]))
			}
			return drv.FromBytes([]byte(n + "a"))
		case 2:
			b := []byte(n)
			b[len(b)-1]++
			return drv.FromBytes(b)
		default:
			b := []byte(n)
			if b[len(b)-1] > 0 {
				b[len(b)-1]--
				b = append(b, 0xff)
			}
			return drv.FromBytes(b)
		}
	case c < 80:
		l := rapid.IntRange(1, 3).Draw(t, "klen")
		s := ""
		for i := 0; i < l; i++ {
			s += rapid.SampledFrom(alphabet).Draw(t, "kch")
		}
		return drv.Lit(s)
	case c < 85:
		return drv.FromBytes([]byte(rapid.SampledFrom(oddBytes).Draw(t, "odd")))
	case c < 95 || !cfg.Large:
		l := rapid.IntRange(8, 64).Draw(t, "kmed")
		return drv.B{S: rapid.SampledFrom(alphabet).Draw(t, "kpre") + rapid.SampledFrom(alphabet).Draw(t, "kpre2"), N: l}
	case c < 99:
		l := rapid.IntRange(pageSize/2, 2*pageSize).Draw(t, "kbig")
		if l > drv.MaxKeySize {
			l = drv.MaxKeySize
		}
		return drv.B{S: rapid.SampledFrom(alphabet).Draw(t, "kpre"), N: l}
	default:
		return drv.B{S: rapid.SampledFrom(alphabet).Draw(t, "kpre"), N: drv.MaxKeySize}
	}
}

// Val draws a value around the interesting size thresholds.
func Val(t *rapid.T, cfg Cfg, pageSize int) drv.B {
	c := rapid.IntRange(0, 99).Draw(t, "valclass")
	tag := rapid.SampledFrom([]string{"v", "w", "x", "y"}).Draw(t, "vtag")
	switch {
	case c < 3:
		return drv.B{Nil: true}
	case c < 8:
		return drv.B{}
	case c < 45:
		return drv.B{S: tag, N: rapid.IntRange(1, 16).Draw(t, "vtiny")}
	case c < 65:
		return drv.B{S: tag, N: rapid.IntRange(pageSize/4-40, pageSize/4+24).Draw(t, "vinline")}
	case c < 80 || !cfg.Large:
		return drv.B{S: tag, N: rapid.IntRange(40, pageSize/2).Draw(t, "vmed")}
	case c < 92:
		return drv.B{S: tag, N: rapid.IntRange(pageSize-64, pageSize+64).Draw(t, "vpage")}
	default:
		return drv.B{S: tag, N: rapid.IntRange(2*pageSize, 5*pageSize).Draw(t, "vbig")}
	}
}

func pickPath(t *rapid.T, m *model.Bucket, label string, allowRoot bool) []string {
	paths := m.AllPaths()
	if !allowRoot {
		paths = paths[1:]
	}
	if len(paths) == 0 {
		return nil
	}
	return paths[rapid.IntRange(0, len(paths)-1).Draw(t, label)]
}

func hasPrefix(p, pre []string) bool {
	if len(p) < len(pre) {
		return false
	}
	for i := range pre {
		if p[i] != pre[i] {
			return false
		}
	}
	return true
}

// Next draws the next op for the environment's current state.
func Next(t *rapid.T, e *drv.Env, cfg Cfg) drv.Op {
	if e.DB == nil {
		o := Opts(t, cfg)
		if cfg.FixedOpts != nil {
			o = *cfg.FixedOpts
		}
		return drv.Op{Op: drv.OpOpen, Opts: &o}
	}
	rb := cfg.ReaderBoost
	if rb == 0 {
		rb = 1
	}
	cw := cfg.CommitWeight
	if cw == 0 {
		cw = 12
	}
	if e.RW == nil {
		ws := []weighted{{60, drv.OpBeginRW}}
		if cfg.Readers {
			if len(e.RO) < cfg.MaxReaders {
				ws = append(ws, weighted{12 * rb, drv.OpBeginRO})
			}
			if len(e.RO) > 0 {
				ws = append(ws, weighted{8 * rb, drv.OpCloseRO}, weighted{6, drv.OpDumpRO}, weighted{6, "roread"})
				if cfg.ErrProbes {
					ws = append(ws, weighted{2, "rowrite"})
				}
			}
		}
		if cfg.Reopen && len(e.RO) == 0 {
			rw := cfg.ReopenWeight
			if rw == 0 {
				rw = 6
			}
			ws = append(ws, weighted{rw, drv.OpReopen})
		}
		if cfg.Probes {
			ws = append(ws, weighted{3, drv.OpProbe})
		}
		if cfg.Faults > 0 {
			ws = append(ws, weighted{cfg.Faults, drv.OpArmFault})
		}
		if cfg.ErrProbes {
			ws = append(ws, weighted{3, drv.OpClosedTxUse})
		}
		if cfg.TearMeta > 0 && len(e.RO) == 0 {
			ws = append(ws, weighted{cfg.TearMeta, drv.OpTearMeta})
		}
		k := pick(t, "txop", ws)
		switch k {
		case drv.OpArmFault:
			return drv.Op{Op: k, U: uint64(rapid.IntRange(1, 12).Draw(t, "faultin")), Note: cfg.FaultKinds}
		case drv.OpTearMeta:
			return drv.Op{Op: k, U: uint64(rapid.IntRange(57, 71).Draw(t, "tearbytes"))}
		case drv.OpBeginRO:
			id := 1
			for e.RO[id] != nil {
				id++
			}
			return drv.Op{Op: k, Tx: id}
		case drv.OpCloseRO, drv.OpDumpRO, "roread", "rowrite":
			ids := make([]int, 0, len(e.RO))
			for id := range e.RO {
				ids = append(ids, id)
			}
			sort.Ints(ids)
			id := ids[rapid.IntRange(0, len(ids)-1).Draw(t, "reader")]
			if k == "roread" {
				return bucketOp(t, e, cfg, id, e.ROModel(id), true)
			}
			if k == "rowrite" {
				return bucketOp(t, e, cfg, id, e.ROModel(id), false)
			}
			return drv.Op{Op: k, Tx: id}
		case drv.OpReopen:
			o := Opts(t, cfg)
			if cfg.FixedOpts != nil {
				o = *cfg.FixedOpts
			}
			o.PageSize = 0
			return drv.Op{Op: k, Opts: &o}
		}
		return drv.Op{Op: k}
	}
	// inside a write transaction
	ws := []weighted{{82, "bucketop"}, {cw, drv.OpCommit}}
	if cfg.Rollbacks {
		ws = append(ws, weighted{3, drv.OpRollback})
	}
	ws = append(ws, weighted{3, drv.OpDumpTx})
	k := pick(t, "rwop", ws)
	if k == drv.OpCommit && cfg.MidReaders > 0 && cfg.Readers && len(e.RO) < cfg.MaxReaders && rapid.IntRange(0, 99).Draw(t, "midreader") < cfg.MidReaders {
		// a reader begins while the writer stands at one of the I/O calls of this commit
		id := 1
		for e.RO[id] != nil {
			id++
		}
		op := drv.Op{Op: k, Tx: id, U: uint64(rapid.IntRange(1, 10).Draw(t, "midat"))}
		if e.FaultArmed() && rapid.Bool().Draw(t, "midatfault") {
			op.Note = "atfault" // exactly at the call the armed fault is going to fail
		}
		return op
	}
	if k != "bucketop" {
		return drv.Op{Op: k}
	}
	return bucketOp(t, e, cfg, 0, e.RW.Model(), false)
}

func bucketOp(t *rapid.T, e *drv.Env, cfg Cfg, txid int, m *model.Bucket, readOnly bool) drv.Op {
	nb := len(m.AllPaths()) - 1
	var ws []weighted
	if readOnly {
		ws = []weighted{{10, drv.OpGet}, {4, drv.OpSeq}, {4, drv.OpForEach}, {2, drv.OpForEachBkt}, {2, drv.OpTxForEach}, {2, drv.OpInspect}, {3, drv.OpStatsKeyN}, {3, drv.OpBucketProbe}, {3, drv.OpDumpTx}, {4, drv.OpWriteTo}}
		if cfg.Cursors {
			ws = append(ws, weighted{6, drv.OpCursor})
		}
	} else {
		bw := cfg.BucketWeight
		if bw == 0 {
			bw = 1
		}
		ws = []weighted{{8 * bw, drv.OpCreate}, {3 * bw, drv.OpCreateINE}}
		if nb > 0 {
			ws = append(ws, weighted{30, drv.OpPut}, weighted{8, drv.OpGet}, weighted{10, drv.OpDelete}, weighted{3, drv.OpCurDelete},
				weighted{4 * bw, drv.OpDeleteBkt}, weighted{4 * bw, drv.OpMove}, weighted{2, drv.OpSeq}, weighted{2, drv.OpSetSeq}, weighted{3, drv.OpNextSeq},
				weighted{2, drv.OpForEach}, weighted{1, drv.OpForEachBkt}, weighted{1, drv.OpTxForEach}, weighted{1, drv.OpInspect}, weighted{2, drv.OpBucketProbe}, weighted{2, drv.OpFill})
			if cfg.Cursors {
				ws = append(ws, weighted{4, drv.OpCursor})
			}
			if cfg.Bulk {
				ws = append(ws, weighted{6, drv.OpBulkPut}, weighted{5, drv.OpBulkDel})
			}
		}
	}
	k := pick(t, "bop", ws)
	ps := e.PageSize
	if ps == 0 {
		ps = 4096
	}
	op := drv.Op{Op: k, Tx: txid}
	switch k {
	case drv.OpTxForEach, drv.OpDumpTx, drv.OpWriteTo:
		return op
	case drv.OpCreate, drv.OpCreateINE:
		paths := m.AllPaths()
		// prefer shallow parents; respect MaxDepth
		var cand [][]string
		for _, p := range paths {
			if len(p) < cfg.MaxDepth {
				cand = append(cand, p)
			}
		}
		p := cand[rapid.IntRange(0, len(cand)-1).Draw(t, "parent")]
		op.Path = drv.PathOf(p)
		mb := m.Lookup(p)
		var key drv.B
		if cfg.ErrProbes && rapid.IntRange(0, 29).Draw(t, "emptyname") == 0 {
			key = drv.B{}
		} else {
			c2 := cfg
			// bucket names are keys: mostly short, now and then as long as other keys (up to two pages)
			c2.Large = cfg.Large && rapid.IntRange(0, 11).Draw(t, "longname") == 0
			key = Key(t, mb, c2, ps)
			if key.N > 64 && !c2.Large {
				key.N = 64
			}
			if key.N > 2*ps {
				key.N = 2 * ps
			}
		}
		op.Key = &key
		return op
	case drv.OpDeleteBkt, drv.OpBucketProbe, drv.OpInspect:
		p := pickPath(t, m, "path", true)
		op.Path = drv.PathOf(p)
		mb := m.Lookup(p)
		var key drv.B
		subs := mb.SubNames()
		if len(subs) > 0 && rapid.IntRange(0, 9).Draw(t, "usesub") < 8 {
			key = drv.FromBytes([]byte(subs[rapid.IntRange(0, len(subs)-1).Draw(t, "sub")]))
		} else {
			key = Key(t, mb, cfg, ps)
		}
		op.Key = &key
		return op
	case drv.OpMove:
		// source: a bucket that has sub-buckets if possible
		paths := m.AllPaths()
		var withSubs [][]string
		for _, p := range paths {
			if len(m.Lookup(p).Sub) > 0 {
				withSubs = append(withSubs, p)
			}
		}
		var src []string
		if len(withSubs) > 0 && rapid.IntRange(0, 9).Draw(t, "srcwithsubs") < 9 {
			src = withSubs[rapid.IntRange(0, len(withSubs)-1).Draw(t, "src")]
		} else {
			src = paths[rapid.IntRange(0, len(paths)-1).Draw(t, "src")]
		}
		mb := m.Lookup(src)
		var key drv.B
		subs := mb.SubNames()
		if len(subs) > 0 && rapid.IntRange(0, 9).Draw(t, "usesub") < 9 {
			key = drv.FromBytes([]byte(subs[rapid.IntRange(0, len(subs)-1).Draw(t, "sub")]))
		} else {
			key = Key(t, mb, cfg, ps)
		}
		dst := paths[rapid.IntRange(0, len(paths)-1).Draw(t, "dst")]
		moved := append(append([]string{}, src...), key.Str())
		if cfg.NoMoveIntoSelf && mb.Has(key.Str()) == 2 && hasPrefix(dst, moved) {
			// known finding F2: redirect the destination to the parent of the source
			if cfg.Excluded != nil {
				*cfg.Excluded++
			}
			dst = nil
		}
		op.Path = drv.PathOf(src)
		op.Key = &key
		if len(dst) == 0 {
			op.DstR = true
		} else {
			op.Dst = drv.PathOf(dst)
		}
		return op
	}
	// ops on a non-root bucket
	p := pickPath(t, m, "path", false)
	if p == nil {
		return drv.Op{Op: drv.OpTxForEach, Tx: txid}
	}
	op.Path = drv.PathOf(p)
	mb := m.Lookup(p)
	switch k {
	case drv.OpPut:
		key := Key(t, mb, cfg, ps)
		val := Val(t, cfg, ps)
		if cfg.ErrProbes {
			switch rapid.IntRange(0, 79).Draw(t, "puterr") {
			case 0:
				key = drv.B{}
			case 1:
				key = drv.B{S: "a", N: drv.MaxKeySize + 1}
			case 2:
				op.Note = "huge"
			}
		}
		op.Key, op.Val = &key, &val
	case drv.OpGet, drv.OpDelete, drv.OpCurDelete:
		key := Key(t, mb, cfg, ps)
		op.Key = &key
	case drv.OpSetSeq:
		op.U = rapid.SampledFrom([]uint64{0, 1, 2, 7, 1 << 32, ^uint64(0) - 1, ^uint64(0)}).Draw(t, "seqval")
	case drv.OpFill:
		op.F = rapid.SampledFrom([]float64{0.1, 0.3, 0.5, 0.9, 1.0, 0.5, 0.0, 0.05, 1.5}).Draw(t, "fill") // out-of-range values are clamped by the library
	case drv.OpCursor:
		op.Cur = CursorCalls(t, mb, cfg, ps, rapid.IntRange(1, 12).Draw(t, "ncalls"))
	case drv.OpBulkPut, drv.OpBulkDel:
		pre := drv.Lit(rapid.SampledFrom([]string{"k", "m", "z"}).Draw(t, "bulkpre"))
		op.Key = &pre
		op.KN = rapid.SampledFrom([]int{0, 0, 24, 120, 300}).Draw(t, "bulkkn")
		op.From = rapid.IntRange(0, 120).Draw(t, "bulkfrom")
		op.To = op.From + rapid.IntRange(1, 80).Draw(t, "bulkcount")
		if k == drv.OpBulkPut {
			v := drv.B{S: "b", N: rapid.SampledFrom([]int{0, 8, 60, 200, ps / 3}).Draw(t, "bulkval")}
			op.Val = &v
		}
	}
	return op
}

// CursorCalls draws a cursor program.
func CursorCalls(t *rapid.T, mb *model.Bucket, cfg Cfg, ps, n int) []drv.CurCall {
	var calls []drv.CurCall
	for i := 0; i < n; i++ {
		var c string
		if cfg.CursorMut > 0 && i > 0 && rapid.IntRange(0, 99).Draw(t, "curmut") < cfg.CursorMut {
			// a mutation through the bucket (or the cursor) while the cursor stays in use, then a repositioning call
			mk := rapid.SampledFrom([]string{"put", "put", "del", "cdel"}).Draw(t, "curmutkind")
			cc := drv.CurCall{C: mk}
			if mk != "cdel" {
				c2 := cfg
				c2.Large = false
				k := Key(t, mb, c2, ps)
				cc.K = &k
				if mk == "put" {
					v := Val(t, c2, ps)
					cc.V = &v
				}
			}
			calls = append(calls, cc)
			rp := drv.CurCall{C: rapid.SampledFrom([]string{"first", "last", "seek"}).Draw(t, "reposition")}
			if rp.C == "seek" {
				c2 := cfg
				c2.Large = false
				k := Key(t, mb, c2, ps)
				rp.K = &k
			}
			calls = append(calls, rp)
			continue
		}
		if i == 0 {
			c = rapid.SampledFrom([]string{"first", "last", "seek", "seek"}).Draw(t, "cur0")
		} else {
			c = rapid.SampledFrom([]string{"next", "next", "next", "prev", "prev", "prev", "first", "last", "seek", "seek"}).Draw(t, "cur")
		}
		cc := drv.CurCall{C: c}
		if c == "seek" {
			var k drv.B
			switch rapid.IntRange(0, 9).Draw(t, "seekclass") {
			case 0:
				k = drv.B{} // empty: below everything
			case 1:
				k = drv.FromBytes([]byte("\xff\xff\xff\xff")) // above everything generated
			default:
				c2 := cfg
				c2.Large = false
				k = Key(t, mb, c2, ps)
			}
			cc.K = &k
		}
		calls = append(calls, cc)
	}
	return calls
}

// BucketOp draws one bucket-level op for transaction txid whose model view is m.
func BucketOp(t *rapid.T, e *drv.Env, cfg Cfg, txid int, m *model.Bucket, readOnly bool) drv.Op {
	return bucketOp(t, e, cfg, txid, m, readOnly)
}

# Per-property check configuration used by bin/check and bin/mkmanifest.
# parts: each part is one test function of harness/props, run in `shards` processes with `checks` rapid cases each.

def part(test, q, t, **kw):
    d = {"test": test, "quick": q, "thorough": t}
    d.update(kw)
    return d

PROPS = {
    "C04": {
        "level": "exploration",
        "title": "nested ordered map model",
        "technique": "stateful property-based testing (rapid state machine) against a nested-map reference model",
        "design_ref": "DESIGN.md §3 C04",
        "text": "Model-based random exploration of the whole public Bucket/Tx API: every returned value and error is compared with an independent nested-map model and the full database is dumped and compared after every commit, rollback and reopen. Exploration is the right level: the property quantifies over all finite API programs, which can only be sampled; generators are built to cross every structural threshold (split, merge, inline/paged, overflow).",
        "note": "Assumes the reference model (harness/model) encodes the documented semantics; nil and empty values are treated as equal; bucket names longer than MaxKeySize are not generated; the known finding F2 (MoveBucket into own subtree) is excluded by construction and counted.",
        "assumptions": ["reference model = documented API semantics", "empty value == nil value", "linux/amd64, tmpfs-backed files"],
        "parts": [part("TestC04", {"checks": 700, "steps": 70, "timeout": 300}, {"checks": 15000, "steps": 90, "timeout": 1500})],
    },
    "C05": {
        "level": "exploration",
        "title": "cursor navigation",
        "technique": "property-based testing of generated cursor programs against a sorted-list-with-position oracle, incl. same-transaction deletes that empty leaves",
        "design_ref": "DESIGN.md §3 C05",
        "text": "Generated bucket shapes x generated same-transaction batches (directed at emptying whole leaves) x generated First/Last/Next/Prev/Seek programs, each call compared with a sorted list with a position; a watchdog turns a cursor call that does not return into a violation. Exploration: the property quantifies over all contents and call sequences.",
        "note": "Cursors are repositioned after every mutation (as the Cursor doc requires); unpositioned cursors are not navigated; position after a Seek beyond the last key is taken to be 'end' (Prev returns the last key).",
        "assumptions": ["sorted list with a position is the specification", "hang = no return within 20 s of a call that normally takes microseconds"],
        "parts": [part("TestC05", {"checks": 1500, "timeout": 300}, {"checks": 40000, "timeout": 1500})],
    },
    "C07": {
        "level": "exploration",
        "title": "page accounting",
        "technique": "stateful property-based testing with an independent file decoder as page-accounting oracle after every commit, failed commit and reopen",
        "design_ref": "DESIGN.md §3 C07",
        "text": "Generated histories (bucket-deletion/move heavy, rollbacks, size-limit failures, reopen with other options) with the independent decoder's page accounting checked after every commit and open and compared with Stats, Tx.Check, Tx.Page and the in-memory free list. Exploration over histories; the oracle itself is exact (every page below the high-water mark is classified).",
        "note": "Trusts harness/refdec (independent implementation of the published v2 layout). Stats.FreeAlloc is not asserted directly after Open (documented as updated on transaction close). Known finding F2 excluded by construction.",
        "assumptions": ["refdec implements the published version-2 layout", "little-endian"],
        "parts": [part("TestC07", {"checks": 500, "steps": 70, "timeout": 300}, {"checks": 12000, "steps": 90, "timeout": 1500})],
    },
}

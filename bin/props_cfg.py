# Per-property check configuration used by bin/check and bin/mkmanifest.
# parts: each part is one test function of harness/props, run in `shards` processes with `checks` rapid cases each.

def part(test, q, t, **kw):
    d = {"test": test, "quick": q, "thorough": t}
    d.update(kw)
    return d

PROPS = {
    "C04": {
        "level": "exploration",
        "title": "nested ordered map model",
        "technique": "stateful property-based testing (rapid state machine) against a nested-map reference model",
        "design_ref": "DESIGN.md §3 C04",
        "text": "Model-based random exploration of the whole public Bucket/Tx API: every returned value and error is compared with an independent nested-map model and the full database is dumped and compared after every commit, rollback and reopen. Exploration is the right level: the property quantifies over all finite API programs, which can only be sampled; generators are built to cross every structural threshold (split, merge, inline/paged, overflow).",
        "note": "Assumes the reference model (harness/model) encodes the documented semantics; nil and empty values are treated as equal; bucket names longer than MaxKeySize are not generated; the known finding F2 (MoveBucket into own subtree) is excluded by construction and counted.",
        "assumptions": ["reference model = documented API semantics", "empty value == nil value", "linux/amd64, tmpfs-backed files"],
        "parts": [part("TestC04", {"checks": 700, "steps": 70, "timeout": 300}, {"checks": 15000, "steps": 90, "timeout": 1500})],
    },
    "C05": {
        "level": "exploration",
        "title": "cursor navigation",
        "technique": "property-based testing of generated cursor programs against a sorted-list-with-position oracle, incl. same-transaction deletes that empty leaves",
        "design_ref": "DESIGN.md §3 C05",
        "text": "Generated bucket shapes x generated same-transaction batches (directed at emptying whole leaves) x generated First/Last/Next/Prev/Seek programs, each call compared with a sorted list with a position; a watchdog turns a cursor call that does not return into a violation. Exploration: the property quantifies over all contents and call sequences.",
        "note": "Cursors are repositioned after every mutation (as the Cursor doc requires); unpositioned cursors are not navigated; position after a Seek beyond the last key is taken to be 'end' (Prev returns the last key).",
        "assumptions": ["sorted list with a position is the specification", "hang = no return within 20 s of a call that normally takes microseconds"],
        "parts": [part("TestC05", {"checks": 1500, "timeout": 300}, {"checks": 40000, "timeout": 1500})],
    },
    "C07": {
        "level": "exploration",
        "title": "page accounting",
        "technique": "stateful property-based testing with an independent file decoder as page-accounting oracle after every commit, failed commit and reopen",
        "design_ref": "DESIGN.md §3 C07",
        "text": "Generated histories (bucket-deletion/move heavy, rollbacks, size-limit failures, reopen with other options) with the independent decoder's page accounting checked after every commit and open and compared with Stats, Tx.Check, Tx.Page and the in-memory free list. Exploration over histories; the oracle itself is exact (every page below the high-water mark is classified).",
        "note": "Trusts harness/refdec (independent implementation of the published v2 layout). Stats.FreeAlloc is not asserted directly after Open (documented as updated on transaction close). Known finding F2 excluded by construction.",
        "assumptions": ["refdec implements the published version-2 layout", "little-endian"],
        "parts": [part("TestC07", {"checks": 500, "steps": 70, "timeout": 300}, {"checks": 12000, "steps": 90, "timeout": 1500})],
    },
    "C10": {
        "level": "exploration",
        "title": "reclamation of freed pages",
        "technique": "stateful property-based testing; page sets per version from an independent decoder; free-list exactness and growth-bound invariants after generated reader/writer patterns",
        "design_ref": "DESIGN.md §3 C10",
        "text": "Generated writer/reader/probe/reopen patterns; after every commit and at every writer begin the in-memory free and pending sets are compared with page sets of every visible version computed by the independent decoder (pending bound, exact free set with no readers, disjointness with readers, growth bound). Exploration over histories; liveness ('as soon as') is decided as bounded reachability: at the next writer begin.",
        "note": "Presumes no page leak (C07); F2 excluded by construction. Uses the verif-tagged accessor DB.VerifFreelist for the exact free/pending ids (Stats counters are cross-checked against it).",
        "assumptions": ["refdec page sets are the versions' pages", "single goroutine: readers open at writer begin = readers open during it"],
        "parts": [part("TestC10", {"checks": 250, "steps": 90, "timeout": 300}, {"checks": 6000, "steps": 110, "timeout": 1500})],
    },
    "C12": {
        "level": "exploration",
        "title": "on-disk format v2",
        "technique": "differential testing of every written file against an independent decoder of the published layout, plus a golden corpus from the pinned build",
        "design_ref": "DESIGN.md §3 C12",
        "text": "Every file produced by generated histories is decoded after every commit by an independent reader (encoding/binary, no bbolt import) and compared with API dump and model; 27 golden files written by the pinned build are decoded independently and opened/read/checked/written with the current tree; a run-time generated free list beyond 65534 entries exercises the 0xFFFF count convention. Exploration over histories and configurations.",
        "note": "Trusts refdec as the statement of the published v2 layout (DESIGN.md Appendix A); golden digests were produced by the pinned build's own API.",
        "assumptions": ["refdec = published version-2 layout", "little-endian amd64"],
        "parts": [
            part("TestC12", {"checks": 300, "steps": 60, "timeout": 300}, {"checks": 8000, "steps": 90, "timeout": 1500}),
            part("TestC12Golden", {"shards": 1, "timeout": 120}, {"shards": 1, "timeout": 120}, norapid=True),
            part("TestC12BigFreelist", {"shards": 1, "timeout": 300}, {"shards": 1, "timeout": 300}, norapid=True),
        ],
    },
    "C13": {
        "level": "exploration",
        "title": "options never change content",
        "technique": "metamorphic/differential property-based testing: one generated history under several generated option schedules, each compared op by op with the model and with the independent decoder's free set",
        "design_ref": "DESIGN.md §3 C13",
        "text": "A generated logical history is re-executed under generated option schedules (backend, freelist sync, page size, map size, grow sync, mlock, strict mode, statistics, interposed read-only opens with/without preload); all schedules must give identical API results and dumps, and the scanned / persisted free list must equal the decoder's unreachable set after every open and commit.",
        "note": "Identity across schedules is checked through the common model (each schedule equals the model op by op). Mlock is only drawn when a start-up probe shows it is permitted.",
        "assumptions": ["reference model", "refdec"],
        "parts": [part("TestC13", {"checks": 150, "steps": 60, "timeout": 300}, {"checks": 4000, "steps": 80, "timeout": 1500})],
    },
    "C18": {
        "level": "exploration",
        "title": "MaxSize is never exceeded",
        "technique": "stateful property-based testing with the file length observed after every operation under generated size limits and map/alloc sizes",
        "design_ref": "DESIGN.md §3 C18",
        "text": "Generated workloads under generated MaxSize / page size / InitialMmapSize / AllocSize / NoGrowSync (re-drawn at every reopen); after every operation the file length is compared with max(MaxSize, length at open); a commit hitting the limit must leave model state and page accounting untouched and the database usable.",
        "note": "The converse (a transaction that needs no growth must succeed) is not asserted: the code is deliberately conservative and the property does not state it.",
        "assumptions": ["os.Stat length of the data file is the observable"],
        "parts": [part("TestC18", {"checks": 400, "steps": 70, "timeout": 300}, {"checks": 10000, "steps": 90, "timeout": 1500})],
    },
    "C08": {
        "level": "fault_enumeration",
        "title": "failed commit changes nothing",
        "technique": "fault injection enumerated over the I/O calls of generated workloads (k-th pwrite/fdatasync/ftruncate/fsync/mmap fails once) with model, independent-decoder and reader-snapshot oracles",
        "design_ref": "DESIGN.md §3 C08",
        "text": "For generated workloads every I/O call position (quick: a generated subset incl. all calls of one commit; thorough: all) is failed once through the verif hook; the state in process, on disk and after reopen, the page accounting, the snapshots of readers open across the failure and the behaviour of all following transactions are checked. Fault enumeration per workload, exploration over workloads.",
        "note": "Faults are single, transient call failures (the property's fault model); flock/munmap/mlock/read failures are not injected. A failed mmap may legitimately leave the handle unusable until reopened.",
        "assumptions": ["hook call sites cover every write/sync/truncate/mmap of the data file", "refdec", "reference model"],
        "parts": [part("TestC08", {"checks": 18, "steps": 60, "timeout": 400}, {"checks": 150, "steps": 70, "timeout": 2400})],
    },
}
